// C09 - client characteristic configuration is per connection and exact.
// E1: explicit-state BFS over the real server<> + two connection_data objects; events are ATT Write Requests to every CCCD
// with six payloads on either connection; after every write every CCCD of both connections is read back through ATT and
// through the public configured_for_*<uuid>() queries and compared with a reference map (connection, characteristic) -> 2 bits;
// the client_characteristic_configuration_update_callback must fire iff the stored value changed and has to present the
// configuration of the writing connection.
//
// Build: -DNCH=<1|3|4|5|8|9> selects the number of characteristics (one executable per N, three priority set-ups each).
#include "../mc/mc.hpp"
#include "C09_notify_servers.hpp"

#ifndef NCH
#define NCH 3
#endif

namespace {

// ---- recorder for the subscription changed callback (reset before and after every step, so it is no part of the state) ----
struct cb_rec_t
{
    int          count;
    int          n;
    std::uint8_t bits[ 16 ];    // what the callback could see through the public by-UUID queries
} g_cb;

template < class Server >
struct cb_reader
{
    Server& srv; const bluetoe::details::client_characteristic_configuration& data;
    template < int I > void call()
    {
        g_cb.bits[ I ] = std::uint8_t(
            ( srv.template configured_for_notifications< nsrv::cuuid< I > >( data ) ? 1 : 0 )
          | ( srv.template configured_for_indications< nsrv::cuuid< I > >( data ) ? 2 : 0 ) );
    }
};

struct cb_t
{
    template < class Server >
    void client_characteristic_configuration_updated( Server& srv, const bluetoe::details::client_characteristic_configuration& data )
    {
        ++g_cb.count;
        g_cb.n = int( Server::number_of_client_configs );
        cb_reader< Server > r{ srv, data };
        nsrv::for_all< int( Server::number_of_client_configs ) >( r );
    }
} g_cb_obj;

using cb_opt = bluetoe::client_characteristic_configuration_update_callback< cb_t, g_cb_obj >;

// payload alphabet of the CCCD writes
struct payload { const char* name; std::uint8_t b[ 2 ]; int n; };
const payload payloads[] = {
    { "0000", { 0x00, 0x00 }, 2 }, { "0100", { 0x01, 0x00 }, 2 }, { "0200", { 0x02, 0x00 }, 2 },
    { "0300", { 0x03, 0x00 }, 2 }, { "ffff", { 0xff, 0xff }, 2 }, { "01",   { 0x01, 0x00 }, 1 } };
constexpr int npayloads = 6;

// reference: a CCCD holds the two defined bits (notification, indication) of the last write; a one octet write replaces
// the low octet only (pinned by tests/characteristic_tests.cpp characteristic_can_be_written_to_small); the high octet
// never holds a defined bit, so it is always read back as 0
inline std::uint8_t ref_write( std::uint8_t, const payload& p ) { return std::uint8_t( p.b[ 0 ] & 0x03 ); }

template < class Cfg >
struct World
{
    using server_t = typename Cfg::server;
    using conn_t   = typename server_t::template channel_data_t< bluetoe::details::link_state_no_security >;
    using lay      = typename Cfg::lay;
    static constexpr int N = Cfg::n;
    static_assert( int( server_t::number_of_client_configs ) == N, "every generated characteristic has a CCCD" );

    mc::Placed< server_t > srv;
    mc::Placed< conn_t >   conn[ 2 ];
    struct Ref { std::uint8_t bits[ 2 ][ 16 ]; } ref;

    const char* name;
    explicit World( const char* n ) : name( n ) {}

    void init()
    {
        srv.construct();
        conn[ 0 ].construct(); conn[ 1 ].construct();
        memset( &ref, 0, sizeof ref );
        memset( &g_cb, 0, sizeof g_cb );
    }
    void regions( mc::Regions& r ) { r.add( srv.raw, sizeof srv.raw ); r.add( conn[ 0 ].raw, sizeof conn[ 0 ].raw ); r.add( conn[ 1 ].raw, sizeof conn[ 1 ].raw ); r.add( ref ); }

    int num_events() const { return 2 * N * npayloads; }
    static void split( int ev, int& c, int& k, int& v ) { v = ev % npayloads; ev /= npayloads; k = ev % N; c = ev / N; }
    std::string describe( int ev ) const
    {
        int c, k, v; split( ev, c, k, v );
        return mc::fmt( "conn%d: write CCCD of characteristic %d (handle 0x%04x) := %s", c, k, lay::cccd_handle( k ), payloads[ v ].name );
    }

    // ATT Read Request of the CCCD of characteristic k on connection c; returns -1 on anything but a two octet Read Response
    int att_read( int c, int k, std::string& raw )
    {
        const std::uint16_t h = lay::cccd_handle( k );
        const std::uint8_t in[ 3 ] = { 0x0A, std::uint8_t( h ), std::uint8_t( h >> 8 ) };
        std::uint8_t out[ 23 ]; std::size_t n = sizeof out;
        srv->l2cap_input( in, sizeof in, out, n, conn[ c ].get() );
        raw = mc::hex( out, n );
        if ( n != 3 || out[ 0 ] != 0x0B ) return -1;
        return out[ 1 ] | ( out[ 2 ] << 8 );
    }

    struct uuid_reader
    {
        World& w; int c; std::uint8_t out[ 16 ];
        template < int I > void call()
        {
            auto cc = w.conn[ c ]->client_configurations();
            const bool n = w.srv->template configured_for_notifications< nsrv::cuuid< I > >( cc );
            const bool i = w.srv->template configured_for_indications< nsrv::cuuid< I > >( cc );
            const bool e = w.srv->template configured_for_notifications_or_indications< nsrv::cuuid< I > >( cc );
            out[ I ] = std::uint8_t( ( n ? 1 : 0 ) | ( i ? 2 : 0 ) | ( e != ( n || i ) ? 0x80 : 0 ) );
        }
    };

    static const char* relation( int wc, int wk, int c, int k )
    {
        return c != wc ? "other-connection" : k != wk ? "other-cccd" : "written-cccd";
    }

    bool apply( int ev, mc::Ctx& ctx )
    {
        int c, k, v; split( ev, c, k, v );
        const payload& p = payloads[ v ];
        memset( &g_cb, 0, sizeof g_cb );

        const std::uint16_t h = lay::cccd_handle( k );
        std::uint8_t in[ 5 ] = { 0x12, std::uint8_t( h ), std::uint8_t( h >> 8 ), p.b[ 0 ], p.b[ 1 ] };
        std::uint8_t out[ 23 ]; std::size_t n = sizeof out;
        srv->l2cap_input( in, 3 + p.n, out, n, conn[ c ].get() );
        ctx.obs = "rsp=" + mc::hex( out, n );

        const std::uint8_t old_bits = ref.bits[ c ][ k ];
        const std::uint8_t new_bits = ref_write( old_bits, p );
        ref.bits[ c ][ k ] = new_bits;

        if ( n != 1 || out[ 0 ] != 0x13 )
        {
            ctx.fail( mc::fmt( "write-not-accepted:%s", p.n == 1 ? "one-octet" : "two-octets" ),
                      mc::fmt( "%s: Write Request to a CCCD answered with %s instead of a Write Response", name, mc::hex( out, n ).c_str() ) );
            memset( &g_cb, 0, sizeof g_cb );
            return true;
        }

        // callback: exactly once iff the stored value changed, and with the configuration of the writing connection
        const cb_rec_t cb = g_cb;
        memset( &g_cb, 0, sizeof g_cb );
        const bool changed = old_bits != new_bits;
        ctx.obs += mc::fmt( " cb=%d", cb.count );
        ctx.cls( mc::fmt( "write %s: %d->%d callback x%d%s", p.name, old_bits, new_bits, cb.count, ( k / 4 != 0 ) ? " (2nd+ byte)" : "" ) );
        // read every CCCD on both connections
        for ( int rc = 0; rc != 2; ++rc )
        {
            uuid_reader ur{ *this, rc, {} };
            nsrv::for_all< N >( ur );
            for ( int rk = 0; rk != N; ++rk )
            {
                std::string raw;
                const int got = att_read( rc, rk, raw );
                const int exp = ref.bits[ rc ][ rk ];
                if ( got != exp )
                {
                    ctx.fail( mc::fmt( "readback:%s:%s", relation( c, k, rc, rk ), got < 0 ? "no-read-response" : ( got & ~3 ) ? "undefined-bits-kept" : "wrong-bits" ),
                              mc::fmt( "%s: after the write, Read Request of CCCD %d on connection %d -> %s, reference %02x00", name, rk, rc, raw.c_str(), exp ) );
                    return true;
                }
                if ( ur.out[ rk ] != exp )
                {
                    ctx.fail( mc::fmt( "by-uuid-query:%s", relation( c, k, rc, rk ) ),
                              mc::fmt( "%s: configured_for_notifications/indications< uuid of characteristic %d >( connection %d ) -> 0x%02x, ATT read and reference say %d", name, rk, rc, ur.out[ rk ], exp ) );
                    return true;
                }
            }
        }
        // callback invoked exactly once iff the stored value changed
        if ( changed && cb.count == 0 )
            ctx.fail( "callback:missing-on-change", mc::fmt( "%s: stored value of CCCD %d changed %d -> %d, callback not invoked", name, k, old_bits, new_bits ) );
        else if ( !changed && cb.count != 0 )
            ctx.fail( "callback:invoked-without-change", mc::fmt( "%s: write of %s left CCCD %d at %d, callback invoked %d times", name, p.name, k, old_bits, cb.count ) );
        else if ( cb.count > 1 )
            ctx.fail( "callback:invoked-more-than-once", mc::fmt( "%s: one write, callback invoked %d times", name, cb.count ) );
        if ( !ctx.fails.empty() ) return true;
        // the configuration handed to the callback is the one of the writing connection after the write
        if ( cb.count == 1 )
            for ( int i = 0; i != N; ++i )
                if ( cb.bits[ i ] != ref.bits[ c ][ i ] )
                {
                    ctx.fail( mc::fmt( "callback:wrong-configuration-presented:%s", i == k ? "written-cccd" : "other-cccd" ),
                              mc::fmt( "%s: callback after write on connection %d: characteristic %d is presented as %d, reference %d", name, c, i, cb.bits[ i ], ref.bits[ c ][ i ] ) );
                    break;
                }
        return true;
    }
};

template < class Cfg >
void run_one( const char* name, int depth_quick, int depth_thorough, const mc::Args& a, mc::Report& total, const std::string& only, int& rc )
{
    static World< Cfg > w( name );
    mc::Report rep; rep.property = "C09"; rep.unit = name;
    if ( !only.empty() && only != rep.unit ) return;
    mc::BfsOptions o; o.max_depth = a.thorough() ? depth_thorough : depth_quick; o.max_states = 3000000;
    mc::Bfs< World< Cfg > > bfs( w, rep, a, o );
    if ( !a.replay.empty() ) { rc |= bfs.replay_file( mc::read_replay( a.replay ) ); return; }
    bfs.run();
    total.states += rep.states; total.transitions += rep.transitions; total.evaluations += rep.evaluations;
    total.traces_validated += rep.traces_validated;
    total.exhaustive = total.exhaustive && rep.exhaustive;
    for ( auto& cl : rep.classes ) total.cls( cl );
    for ( auto& s : rep.samples ) total.sample( rep.unit + ": " + s, 6 );
    total.counters[ "states " + rep.unit ] = rep.states;
    total.counters[ "depth " + rep.unit ] = std::uint64_t( rep.max_depth_completed );
    total.counters[ "fixpoint " + rep.unit ] = rep.fixpoint;
    total.counters[ "configurations" ]++;
    if ( total.max_depth_completed < 0 || rep.max_depth_completed < total.max_depth_completed ) total.max_depth_completed = rep.max_depth_completed;
    for ( auto& n : rep.notes ) total.notes[ rep.unit + " " + n.first ] = n.second;
    for ( auto& v : rep.violations )
    {
        std::vector< std::string > t = v.second.trace;
        total.fail( v.first, v.second.detail, t );
    }
}

} // namespace

int main( int argc, char** argv )
{
    mc::Args a = mc::parse_args( argc, argv );
    mc::Report total; total.property = "C09"; total.unit = a.opt.count( "unit" ) ? a.opt[ "unit" ] : "C09_cccd";
    std::string only;
    int rc = 0;
    if ( !a.replay.empty() )
    {   // the trace's "detail" line starts with the configuration name
        std::ifstream f( a.replay ); std::string l;
        while ( std::getline( f, l ) ) if ( l.rfind( "detail ", 0 ) == 0 ) only = l.substr( 7, l.find( ':' ) - 7 );
    }
    using K = nsrv::mixed_kinds;
    // depth: number of consecutive writes (every write is followed by a read of every CCCD on both connections);
    // 1000 = until no new state shows up (all reachable configurations)
#define R( cfg, dq, dt ) run_one< nsrv::cfg< K, cb_opt > >( #cfg, dq, dt, a, total, only, rc );
#if NCH == 1
    R( n1_p0, 1000, 1000 ) R( n1_p1, 1000, 1000 )
#elif NCH == 3
    R( n3_p0, 1000, 1000 ) R( n3_p1, 1000, 1000 ) R( n3_p2, 1000, 1000 ) R( n3_p1gap, 1000, 1000 )
#elif NCH == 4
    R( n4_p0, 4, 1000 ) R( n4_p1, 4, 1000 ) R( n4_p2, 4, 1000 )
#elif NCH == 5
    R( n5_p0, 3, 5 ) R( n5_p1, 3, 5 ) R( n5_p2, 3, 5 )
#elif NCH == 8
    R( n8_p0, 3, 4 ) R( n8_p1, 3, 4 ) R( n8_p2, 3, 4 )
#elif NCH == 9
    R( n9_p0, 3, 4 ) R( n9_p1, 3, 4 ) R( n9_p2, 3, 4 )
#else
#error "NCH must be one of 1,3,4,5,8,9"
#endif
    if ( !a.replay.empty() ) return rc;
    total.fixpoint = false;
    total.write( a );
    return 0;
}
