// C37 (second half) - security_tool_box::is_valid_public_key() accepts exactly the valid P-256 points.
// E2 enumeration over: k*G for k <= 64, large multiples, the Core sample keys, valid points with tiny / huge coordinates,
// negated / swapped / off-by-one / zero coordinates, non canonical coordinates (x + p, y + p, p, 2^256 - 1), the all-zero
// encoding; and every single-bit flip of all 512 coordinate bits of every 'base' point (thorough: + every octet value of
// every coordinate octet and every pair of bit flips around G and the Core sample key A).
// Oracle: 0 <= x, y < p and y^2 = x^3 - 3x + b (mod p), decided twice independently: by Python integers
// (gen/C37_points.py -> C37_points.hpp) and by the naive C++ arithmetic of C37_ref_crypto.hpp; both have to agree.
// Built once per uECC word size (variants): 4 = the size the Cortex-M4 target uses, 8 = host native.
#include "../mc/mc.hpp"
#include "C37_ref_crypto.hpp"
#include "C37_points.hpp"
#include "../stubs/nrf_emul.hpp"

#include <bluetoe/security_tool_box.hpp>

namespace {

typedef std::uint8_t u8;
typedef std::vector< u8 > bytes;

struct Checker
{
    mc::Report&     rep;
    const mc::Args& args;
    const ref::p256 curve;
    bool            failed[ 2 ] = { false, false };
    std::map< std::string, std::pair< std::uint64_t, std::uint64_t > > per_class;
    bool            cut = false;

    Checker( mc::Report& r, const mc::Args& a ) : rep( r ), args( a ) {}

    // x, y most significant octet first.  Returns true if implementation and oracle agree.
    bool eval( const std::string& cls, const u8* x, const u8* y, bool verbose = false )
    {
        const bool valid = curve.on_curve( x, y );

        // SM public key PDU layout: X then Y, each least significant octet first
        u8 key[ 64 ];
        std::reverse_copy( x, x + 32, key );
        std::reverse_copy( y, y + 32, key + 32 );

        const bluetoe::nrf52_details::security_tool_box tb;
        const bool accepted = tb.is_valid_public_key( key );

        ++rep.evaluations; ++rep.traces_validated;
        auto& pc = per_class[ cls ];
        ++pc.first;
        rep.cls( cls + ( valid ? "/valid" : "/invalid" ) + ( accepted ? "/accepted" : "/rejected" ) );
        if ( verbose )
            printf( "  x=%s y=%s: on curve and canonical=%d, is_valid_public_key=%d\n", mc::hex( x, 32 ).c_str(), mc::hex( y, 32 ).c_str(), int( valid ), int( accepted ) );

        if ( valid == accepted ) return true;

        ++pc.second;
        const int dir = accepted ? 0 : 1;
        if ( !failed[ dir ] )
        {
            failed[ dir ] = true;
            rep.fail( mc::fmt( "pubkey-%s:%s", accepted ? "accepts-invalid" : "rejects-valid", cls.c_str() ),
                      mc::fmt( "is_valid_public_key( x=%s, y=%s ) returns %s, but the point is %s", mc::hex( x, 32 ).c_str(), mc::hex( y, 32 ).c_str(),
                               accepted ? "true" : "false", valid ? "a valid P-256 point" : "not a valid P-256 point (off the curve or coordinate >= p)" ),
                      { "pubkey " + mc::hex( x, 32 ) + " " + mc::hex( y, 32 ) } );
        }
        return false;
    }

    bool expired()
    {
        if ( !cut && ( rep.evaluations & 255 ) == 0 && args.expired() ) cut = true;
        return cut;
    }

    void flips( const std::string& cls, const bytes& x, const bytes& y )
    {
        for ( int bit = 0; bit != 512 && !expired(); ++bit )
        {
            bytes xx = x, yy = y;
            ( bit < 256 ? xx : yy )[ 31 - ( bit % 256 ) / 8 ] ^= u8( 1 << ( bit % 8 ) );
            eval( cls + ( bit < 256 ? "+flip-x" : "+flip-y" ), xx.data(), yy.data() );
        }
    }

    void octets( const std::string& cls, const bytes& x, const bytes& y )
    {
        for ( int i = 0; i != 64; ++i )
            for ( int v = 0; v != 256 && !expired(); ++v )
            {
                bytes xx = x, yy = y;
                ( i < 32 ? xx : yy )[ i % 32 ] = u8( v );
                eval( cls + ( i < 32 ? "+octet-x" : "+octet-y" ), xx.data(), yy.data() );
            }
    }

    void flip_pairs( const std::string& cls, const bytes& x, const bytes& y )
    {
        for ( int b1 = 0; b1 != 512; ++b1 )
            for ( int b2 = b1 + 1; b2 != 512 && !expired(); ++b2 )
            {
                bytes xx = x, yy = y;
                ( b1 < 256 ? xx : yy )[ 31 - ( b1 % 256 ) / 8 ] ^= u8( 1 << ( b1 % 8 ) );
                ( b2 < 256 ? xx : yy )[ 31 - ( b2 % 256 ) / 8 ] ^= u8( 1 << ( b2 % 8 ) );
                eval( cls + "+2-flips", xx.data(), yy.data() );
            }
    }
};

} // namespace

int main( int argc, char** argv )
{
    mc::Args a = mc::parse_args( argc, argv );
    mc::Report rep; rep.property = "C37"; rep.unit = a.opt.count( "unit" ) ? a.opt[ "unit" ] : "C37_pubkey";

    const std::string st = ref::self_test();
    if ( !st.empty() ) { fprintf( stderr, "C37: reference self test failed: %s\n", st.c_str() ); return 2; }

    Checker ck( rep, a );

    // the two independent oracles have to agree on the whole table
    const std::size_t n = sizeof c37::point_cases / sizeof c37::point_cases[ 0 ];
    std::size_t n_valid = 0;
    for ( std::size_t i = 0; i != n; ++i )
    {
        const c37::point_case& pc = c37::point_cases[ i ];
        const bytes x = ref::from_hex( pc.x ), y = ref::from_hex( pc.y );
        if ( x.size() != 32 || y.size() != 32 || ck.curve.on_curve( x.data(), y.data() ) != pc.valid )
        {
            fprintf( stderr, "C37: Python table and C++ curve check disagree on entry %zu (%s)\n", i, pc.cls );
            return 2;
        }
        n_valid += pc.valid;
    }

    if ( !a.replay.empty() )
    {
        const mc::ReplayFile rf = mc::read_replay( a.replay );
        int rc = 0;
        for ( const std::string& s : rf.steps )
        {
            char xs[ 80 ] = { 0 }, ys[ 80 ] = { 0 };
            if ( sscanf( s.c_str(), "pubkey %64s %64s", xs, ys ) != 2 ) continue;
            const bytes x = mc::unhex( xs ), y = mc::unhex( ys );
            if ( x.size() != 32 || y.size() != 32 ) continue;
            printf( "step %s\n", s.c_str() );
            if ( !ck.eval( "replay", x.data(), y.data(), true ) ) { printf( "REPRODUCED %s\n", rf.sig.c_str() ); rc = 1; }
        }
        if ( !rc ) printf( "not reproduced\n" );
        return rc;
    }

    for ( std::size_t i = 0; i != n; ++i )
    {
        const c37::point_case& pc = c37::point_cases[ i ];
        const bytes x = ref::from_hex( pc.x ), y = ref::from_hex( pc.y );
        ck.eval( pc.cls, x.data(), y.data() );
        if ( i == 0 || std::string( pc.cls ) == "zero-point" || std::string( pc.cls ) == "x-is-p" )
            rep.sample( mc::fmt( "%s x=%s y=%s valid=%d", pc.cls, pc.x, pc.y, int( pc.valid ) ) );
    }

    for ( std::size_t i = 0; i != n; ++i )
    {
        const c37::point_case& pc = c37::point_cases[ i ];
        if ( pc.base ) ck.flips( pc.cls, ref::from_hex( pc.x ), ref::from_hex( pc.y ) );
    }

    if ( a.thorough() )
        for ( std::size_t i = 0; i != n; ++i )
        {
            const c37::point_case& pc = c37::point_cases[ i ];
            const bool g = i == 0, sample = std::string( pc.cls ) == "core-sample-key";
            if ( !g && !sample ) continue;
            ck.octets( pc.cls, ref::from_hex( pc.x ), ref::from_hex( pc.y ) );
            if ( g || std::string( c37::point_cases[ i - 1 ].cls ) != "core-sample-key" )      // G and sample key A
                ck.flip_pairs( pc.cls, ref::from_hex( pc.x ), ref::from_hex( pc.y ) );
        }

    if ( ck.cut ) { rep.exhaustive = false; rep.notes[ "cut" ] = "deadline reached before the alphabet was completely enumerated"; }

    std::string mism;
    for ( auto& kv : ck.per_class )
        if ( kv.second.second ) mism += mc::fmt( "%s %llu/%llu; ", kv.first.c_str(), ( unsigned long long )kv.second.second, ( unsigned long long )kv.second.first );
    if ( !mism.empty() ) rep.notes[ "mismatching input classes (mismatches/cases)" ] = mism;
    rep.counters[ "table entries" ] = n;
    rep.counters[ "valid table entries" ] = n_valid;
    rep.counters[ "input classes" ] = ck.per_class.size();
#ifdef uECC_WORD_SIZE
    rep.counters[ "uECC_WORD_SIZE" ] = uECC_WORD_SIZE;
#endif
    rep.notes[ "oracle" ] = "0 <= x, y < p and y^2 = x^3 - 3x + b mod p; Python integers and naive C++ arithmetic agree on every table entry";
    rep.write( a );
    return 0;
}
