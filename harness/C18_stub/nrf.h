/* Minimal host stand-in for Nordic's <nrf.h>, written for /verif (nothing copied from the MDK):
 * just the type names, instance macros and bit-field constants that bluetoe/bindings/nordic/include/bluetoe/nrf.hpp
 * mentions, so that `#include <bluetoe/nrf.hpp>` compiles on the host.  No register is ever touched by the C18/C19
 * harnesses - they only use bluetoe::nrf_details::encrypted_pdu_layout. */
#ifndef VERIF_C18_STUB_NRF_H
#define VERIF_C18_STUB_NRF_H

#include <stdint.h>

#define __NVIC_PRIO_BITS 3

typedef struct { volatile uint32_t reserved; } NRF_RADIO_Type;
typedef struct { volatile uint32_t reserved; } NRF_TIMER_Type;
typedef struct { volatile uint32_t reserved; } NRF_TEMP_Type;
typedef struct { volatile uint32_t reserved; } NRF_CCM_Type;
typedef struct { volatile uint32_t reserved; } NRF_AAR_Type;
typedef struct { volatile uint32_t reserved; } NRF_PPI_Type;
typedef struct { volatile uint32_t reserved; } NRF_RNG_Type;
typedef struct { volatile uint32_t reserved; } NRF_ECB_Type;
typedef struct { volatile uint32_t reserved; } NRF_GPIOTE_Type;
typedef struct { volatile uint32_t reserved; } NVIC_Type;

typedef struct {
    volatile uint32_t TASKS_HFCLKSTART;
    volatile uint32_t TASKS_HFCLKSTOP;
    volatile uint32_t TASKS_LFCLKSTART;
    volatile uint32_t EVENTS_HFCLKSTARTED;
    volatile uint32_t EVENTS_LFCLKSTARTED;
    volatile uint32_t LFCLKSRC;
} NRF_CLOCK_Type;

typedef struct {
    volatile uint32_t TASKS_START;
    volatile uint32_t TASKS_STOP;
    volatile uint32_t EVTEN;
} NRF_RTC_Type;

/* one static dummy block per peripheral: valid addresses, never used */
static NRF_RADIO_Type  verif_stub_radio;
static NRF_TIMER_Type  verif_stub_timer0, verif_stub_timer1;
static NRF_CLOCK_Type  verif_stub_clock;
static NRF_TEMP_Type   verif_stub_temp;
static NRF_RTC_Type    verif_stub_rtc0;
static NRF_CCM_Type    verif_stub_ccm;
static NRF_AAR_Type    verif_stub_aar;
static NRF_PPI_Type    verif_stub_ppi;
static NRF_RNG_Type    verif_stub_rng;
static NRF_ECB_Type    verif_stub_ecb;
static NRF_GPIOTE_Type verif_stub_gpiote;
static NVIC_Type       verif_stub_nvic;

#define NRF_RADIO   (&verif_stub_radio)
#define NRF_TIMER0  (&verif_stub_timer0)
#define NRF_TIMER1  (&verif_stub_timer1)
#define NRF_CLOCK   (&verif_stub_clock)
#define NRF_TEMP    (&verif_stub_temp)
#define NRF_RTC0    (&verif_stub_rtc0)
#define NRF_CCM     (&verif_stub_ccm)
#define NRF_AAR     (&verif_stub_aar)
#define NRF_PPI     (&verif_stub_ppi)
#define NRF_RNG     (&verif_stub_rng)
#define NRF_ECB     (&verif_stub_ecb)
#define NRF_GPIOTE  (&verif_stub_gpiote)
#define NVIC        (&verif_stub_nvic)

#define RTC_EVTEN_COMPARE0_Pos      16
#define RTC_EVTEN_COMPARE0_Enabled  1
#define RTC_EVTEN_COMPARE1_Pos      17
#define RTC_EVTEN_COMPARE1_Enabled  1
#define RTC_EVTEN_OVRFLW_Pos        1
#define RTC_EVTEN_OVRFLW_Enabled    1

#define CLOCK_LFCLKSRCCOPY_SRC_Pos    0
#define CLOCK_LFCLKSRCCOPY_SRC_RC     0
#define CLOCK_LFCLKSRCCOPY_SRC_Xtal   1
#define CLOCK_LFCLKSRCCOPY_SRC_Synth  2

#endif
