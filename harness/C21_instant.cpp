// C21 - instant based link layer procedures (LL_CONNECTION_UPDATE_IND, LL_CHANNEL_MAP_REQ, LL_PHY_UPDATE_IND) apply
// at exactly the connection event whose counter equals their instant, or the link ends with 0x28 (Instant Passed).
//
// E1 product on the real link_layer<> in world LL (harness/ll_world.hpp): every combination of
//     procedure x peripheral latency (CONNECT_IND) x k events before x delta (instant = counter of the receiving
//     event + delta) x traffic while pending x every received/missed pattern over N events
// is executed on restored snapshots, followed by a deterministic drain (LL_PING_REQ + received events).
// Second product: the connection ends while the procedure is still waiting for its instant (central goes silent with or without a
// LL_TERMINATE_IND, local disconnect()), the link layer advertises again and a different CONNECT_IND is accepted: the new connection
// has to use its own parameters throughout and has to answer a LL_PING_REQ (nothing of the old procedure survives).
#include "../mc/mc.hpp"
#include "ll_world.hpp"
#include <bluetoe/server.hpp>
#include <bluetoe/service.hpp>
#include <bluetoe/characteristic.hpp>
#include <bluetoe/gatt_options.hpp>
#include <bluetoe/connection_callbacks.hpp>
#include <bluetoe/connection_details.hpp>
#include <bluetoe/peripheral_latency.hpp>

#ifndef C21_LATCFG
#define C21_LATCFG 0    // 0: default peripheral latency configuration, 1: peripheral_latency_strict, 2: peripheral_latency_strict_plus
#endif

namespace {

namespace bll = bluetoe::link_layer;

std::uint8_t g_value = 0x42;
std::uint8_t g_buf[ 20 ];

using server_t = bluetoe::server<
    bluetoe::service<
        bluetoe::service_uuid16< 0x1234 >,
        bluetoe::characteristic<
            bluetoe::characteristic_uuid16< 0x5678 >,
            bluetoe::bind_characteristic_value< std::uint8_t, &g_value > >,
        bluetoe::characteristic<
            bluetoe::characteristic_uuid16< 0x5679 >,
            bluetoe::bind_characteristic_value< decltype( g_buf ), &g_buf > > >,
    bluetoe::no_gap_service_for_gatt_servers >;

// everything the link layer reports through connection_callbacks<> (plain data, part of the snapshot)
struct Observer
{
    std::uint32_t requested, established, attempt_timeout, changed, closed, phy;
    std::uint16_t ch_interval, ch_latency, ch_timeout;
    std::uint8_t  reason, phy_a, phy_b;

    template < class C > void ll_connection_requested( const bll::connection_details&, const bll::connection_addresses&, C& ) { ++requested; }
    template < class C > void ll_connection_established( const bll::connection_details&, const bll::connection_addresses&, C& ) { ++established; }
    template < class C > void ll_connection_attempt_timeout( C& ) { ++attempt_timeout; }
    template < class C > void ll_connection_changed( const bll::connection_details& d, C& )
    {
        ++changed; ch_interval = d.interval(); ch_latency = d.latency(); ch_timeout = d.timeout();
    }
    template < class C > void ll_connection_closed( std::uint8_t r, C& ) { ++closed; reason = r; }
    template < class C > void ll_phy_updated( bll::phy_ll_encoding::phy_ll_encoding_t a, bll::phy_ll_encoding::phy_ll_encoding_t b, const C& )
    {
        ++phy; phy_a = std::uint8_t( a ); phy_b = std::uint8_t( b );
    }
};

Observer g_obs;

#if C21_LATCFG == 1
using latency_cfg = bll::peripheral_latency_strict;
static const char* const latcfg_name = "strict";
#elif C21_LATCFG == 2
using latency_cfg = bll::peripheral_latency_strict_plus;
static const char* const latcfg_name = "strict_plus";
#else
using latency_cfg = bll::periperal_latency_default_configuration;
static const char* const latcfg_name = "default";
#endif

using ll_t = bll::link_layer< server_t, llw::radio, bll::connection_callbacks< Observer, g_obs >, latency_cfg >;

mc::Placed< ll_t > g_ll;

// ---------------------------------------------------------------------------------------------------------------
// parameters of the scenario
enum { P_CONN_UPDATE = 0, P_CHANNEL_MAP = 1, P_PHY = 2 };
static const char* const proc_name[] = { "connection-update", "channel-map", "phy-update" };

enum { T_NONE = 0, T_PING = 1, T_ATT = 2, T_LONG3 = 3, T_PING_SAME_EVENT = 4, T_ATT_SAME_EVENT = 5 };
static const char* const traffic_name[] = { "none", "ping", "att-read", "3-write-commands-27-bytes", "ping-same-event", "att-read-same-event" };

constexpr unsigned old_interval = 0x18, old_timeout = 0x48, hop = 10;
constexpr unsigned new_win_size = 2, new_latency = 2, new_timeout = 200;
// interval / transmitWindowOffset carried by the LL_CONNECTION_UPDATE_IND: chosen per case ( Case::uset ), constant within a case
static unsigned new_interval = 40, new_win_offset = 3;
static const unsigned update_sets[][ 2 ] = {
    { 40, 3 },                              // 0: default
    { 80, old_interval + 1 }, { 80, 80 },   // 1, 2: larger interval, offset in ( old interval, new interval ]
    { 8, 0 }, { 8, 8 } };                   // 3, 4: smaller interval, offset 0 / new interval
constexpr int n_update_sets = 5;
static const std::uint8_t old_map[ 5 ] = { 0xff, 0xff, 0xff, 0xff, 0x1f };
static const std::uint8_t new_map[ 5 ] = { 0x00, 0x00, 0x00, 0x00, 0x18 };  // channels 35 and 36 only
constexpr std::uint8_t new_phy = 0x02;                                     // LE 2M both directions

static const char* delta_class( int d )
{
    if ( d == 32767 ) return "delta32767";
    if ( d >= 2 ) return "future";
    if ( d == 1 ) return "delta1";
    if ( d == 0 ) return "delta0";
    if ( d == -1 ) return "delta-1";
    return "past";
}

// Core 5.x Vol 6 Part B 5.1.1 / 5.1.2 / 5.1.10: ( Instant - connEventCount ) mod 65536 >= 32767 -> instant is in the past
static bool instant_passed( int d ) { return ( unsigned( d ) & 0xffffu ) >= 32767u; }

static unsigned cur_hop = hop;      // hop increment of the connection in progress ( set by connect() / reconnect() only )

// reference channel selection algorithm #1 (Vol 6 Part B 4.5.8.2), event counter n, lastUnmappedChannel starts with 0
static unsigned csa1( const std::uint8_t* map, unsigned n )
{
    const unsigned unmapped = ( ( n + 1 ) * cur_hop ) % 37;
    if ( map[ unmapped / 8 ] & ( 1 << ( unmapped % 8 ) ) ) return unmapped;
    unsigned used[ 37 ], nused = 0;
    for ( unsigned c = 0; c != 37; ++c ) if ( map[ c / 8 ] & ( 1 << ( c % 8 ) ) ) used[ nused++ ] = c;
    return used[ unmapped % nused ];
}

struct Case
{
    int proc, lat, k, shift, delta, traffic, nev;   // shift: LL_PING_REQ exchanges before the k empty events (moves the position in the receive ring)
    unsigned pattern;   // bit j set: event j after the procedure PDU ( end != 0: of the second connection ) is received, else missed
    int end = 0;        // 0: one connection; else the connection ends before the instant and a second one follows, see end_name
    int uset = 0;       // index into update_sets ( connection update only )
};

enum { E_NONE = 0, E_TERMINATE = 1, E_TIMEOUT = 2, E_DISCONNECT = 3 };
static const char* const end_name[] = { "none", "remote-terminate-then-silence", "supervision-timeout", "local-disconnect" };

// second connection
constexpr unsigned second_interval = 36, second_timeout = 100, second_hop = 7;
static const std::uint8_t second_map[ 5 ] = { 0xff, 0xff, 0x0f, 0x00, 0x00 };   // channels 0..19

static std::string case_line( const Case& c )
{
    return mc::fmt( "case proc=%d lat=%d k=%d shift=%d delta=%d traffic=%d nev=%d pattern=%u end=%d uset=%d  (%s, latency %d, %d+%d events before, instant=counter%+d, traffic %s%s%s)",
        c.proc, c.lat, c.k, c.shift, c.delta, c.traffic, c.nev, c.pattern, c.end, c.uset, proc_name[ c.proc ], c.lat, c.shift, c.k, c.delta, traffic_name[ c.traffic ],
        c.end ? "; connection ends before the instant by " : "", c.end ? end_name[ c.end ] : "" );
}

// ---------------------------------------------------------------------------------------------------------------
// reference central + expectations (plain data, snapshotted together with the link layer)
struct Ref
{
    // PDUs the central still has to send ( LL header byte, length, payload )
    std::uint8_t  q[ 6 ][ 32 ]; std::uint8_t qn;
    // requests accepted by the peripheral / responses seen
    std::uint16_t exp_ping, got_ping, exp_att, got_att, exp_phy_rsp, got_phy_rsp;
    std::uint8_t  next_seq, last_cmd_acked;     // ATT Write Commands: first value byte is a sequence number
    // procedure
    std::uint8_t  phase;            // 0 none, 1 pending, 2 applied, 3 link closed
    std::uint16_t c_rx;             // counter of the event in which the procedure PDU was received
    std::int32_t  delta;
    std::uint16_t d_apply;          // number of events after c_rx at which the new parameters are due
    std::uint8_t  proc, lat;
    // parameters in force
    std::uint32_t interval_us; std::uint8_t map[ 5 ]; std::uint32_t phy_count; std::uint32_t changed;
    std::uint16_t anchor_cnt;       // counter of the last received event
    std::uint8_t  unconfirmed;      // channel map: old and new map gave the same channel at the instant, first differing event decides
    std::uint8_t  proc_pdu[ 16 ];   // the procedure PDU as sent
    std::uint8_t  ending;           // the central / the application ends the connection: the link may close
    std::uint8_t  second;           // 0, else E_* : this is the connection after the one that ended with a pending procedure
    std::uint16_t stale_instant;
    std::uint8_t  overwritten;      // observation (private member): the memory defered_ll_control_pdu_ points to changed while the procedure was pending
};

Ref g_ref;

struct Snapshot
{
    unsigned char ll[ sizeof( ll_t ) ];
    Observer      obs;
    Ref           ref;
    std::uint8_t  value;
    std::uint8_t  buf[ sizeof g_buf ];
};

void save( Snapshot& s ) { std::memcpy( s.ll, g_ll.raw, sizeof s.ll ); s.obs = g_obs; s.ref = g_ref; s.value = g_value; std::memcpy( s.buf, g_buf, sizeof g_buf ); }
void load( const Snapshot& s ) { std::memcpy( g_ll.raw, s.ll, sizeof s.ll ); g_obs = s.obs; g_ref = s.ref; g_value = s.value; std::memcpy( g_buf, s.buf, sizeof g_buf ); }

struct Outcome
{
    std::string sig, detail;        // empty sig: all oracles held
    bool        closed = false;
    std::vector< std::string > log; // verbose step log (replay)
    bool        verbose = false;
    std::string cls;                // outcome class of the case
    unsigned    skips = 0, clamps = 0, missed_at_instant = 0;   // events skipped by peripheral latency / latency shortened to meet the instant
};

void vlog( Outcome& o, const std::string& s ) { if ( o.verbose ) o.log.push_back( s ); }

void push_pdu( std::uint8_t llid, std::initializer_list< std::uint8_t > payload )
{
    std::uint8_t* p = g_ref.q[ g_ref.qn++ ];
    p[ 0 ] = llid; p[ 1 ] = std::uint8_t( payload.size() );
    std::size_t i = 2; for ( auto b : payload ) p[ i++ ] = b;
}
void push_ping() { push_pdu( 0x03, { 0x12 } ); }
void push_att_read() { push_pdu( 0x02, { 0x03, 0x00, 0x04, 0x00, 0x0a, 0x03, 0x00 } ); }   // ATT Read Request, handle 3
void push_long()                                // 29 byte PDU: ATT Write Command, handle 5, 20 bytes ( sequence number, 0xee ... )
{
    std::uint8_t* p = g_ref.q[ g_ref.qn++ ];
    static const std::uint8_t head[] = { 0x02, 27, 23, 0x00, 0x04, 0x00, 0x52, 0x05, 0x00 };
    std::memcpy( p, head, sizeof head );
    std::memset( p + 9, 0xee, 20 );
    p[ 9 ] = ++g_ref.next_seq;
}

void push_procedure( int proc, std::uint16_t instant )
{
    const std::uint8_t il = std::uint8_t( instant ), ih = std::uint8_t( instant >> 8 );
    if ( proc == P_CONN_UPDATE )
        push_pdu( 0x03, { 0x00, new_win_size, std::uint8_t( new_win_offset ), 0, std::uint8_t( new_interval ), 0, new_latency, 0, new_timeout, 0, il, ih } );
    else if ( proc == P_CHANNEL_MAP )
        push_pdu( 0x03, { 0x01, new_map[ 0 ], new_map[ 1 ], new_map[ 2 ], new_map[ 3 ], new_map[ 4 ], il, ih } );
    else
        push_pdu( 0x03, { 0x18, new_phy, new_phy, il, ih } );
}

// what kind of PDU is q[i]
enum { K_PROC, K_PING, K_ATT, K_PHY_REQ, K_WRITE_CMD, K_TERMINATE };
int kind_of( const std::uint8_t* p )
{
    if ( p[ 0 ] == 0x02 ) return p[ 6 ] == 0x52 ? K_WRITE_CMD : K_ATT;
    if ( p[ 2 ] == 0x12 ) return K_PING;
    if ( p[ 2 ] == 0x16 ) return K_PHY_REQ;
    if ( p[ 2 ] == 0x02 ) return K_TERMINATE;
    return K_PROC;
}

// The oracles only look at what the central and the radio can see.  If one of them fails *and* the harness saw that the receive
// buffer slot of the deferred PDU was reused while the procedure was pending, the failure is named after that mechanism (one
// signature per procedure instead of one per symptom).
bool fail( Outcome& o, const std::string& sig, const std::string& detail )
{
    if ( !o.sig.empty() ) return false;
    o.sig = sig; o.detail = detail;
    if ( g_ref.overwritten && sig.rfind( "harness:", 0 ) != 0 )
    {
        o.sig    = mc::fmt( "pending-procedure-overwritten-by-received-data:%s", proc_name[ g_ref.proc ] );
        o.detail = "[symptom " + sig + "] " + detail + "; the receive buffer slot defered_ll_control_pdu_ points to was freed when the PDU was accepted and has been "
                   "reused by PDUs received while the procedure was pending";
    }
    else if ( g_ref.second && sig.rfind( "harness:", 0 ) != 0 )
    {
        o.sig    = mc::fmt( "pending-procedure-survives-connection-end:%s", proc_name[ g_ref.proc ] );
        o.detail = "[symptom " + sig + mc::fmt( "] in the connection that follows one which ended ( %s ) while a procedure ( instant %u ) was pending: ", end_name[ g_ref.second ], unsigned( g_ref.stale_instant ) ) + detail;
    }
    vlog( o, "    FAIL " + o.sig + ": " + o.detail );
    return false;
}

std::string sigof( const char* oracle ) { return mc::fmt( "%s:%s:%s", oracle, proc_name[ g_ref.proc ], delta_class( g_ref.delta ) ); }

// has the procedure taken effect as seen in the last schedule_connection_event() / callbacks of this step?
struct Effects { bool applied, partly; std::string what; };

Effects effects_of_step( unsigned n, std::uint32_t phy_before, std::uint32_t changed_before )
{
    Effects e{ false, false, "" };
    const auto& log = g_ll->log;
    if ( g_ref.proc == P_CONN_UPDATE )
    {
        const bool interval  = log.ce_interval_us == new_interval * 1250u;
        const bool callback  = g_obs.changed == changed_before + 1 && g_obs.ch_interval == new_interval && g_obs.ch_latency == new_latency && g_obs.ch_timeout == new_timeout;
        e.applied = interval && callback;
        e.partly  = interval || g_obs.changed != changed_before;
        e.what    = mc::fmt( "interval passed to schedule_connection_event %u us, connection_changed callbacks %u (interval %u latency %u timeout %u)",
                        log.ce_interval_us, g_obs.changed - changed_before, g_obs.ch_interval, g_obs.ch_latency, g_obs.ch_timeout );
    }
    else if ( g_ref.proc == P_CHANNEL_MAP )
    {
        const unsigned o = csa1( old_map, n ), w = csa1( new_map, n );
        e.applied = log.ce_channel == w;
        e.partly  = log.ce_channel != o;
        e.what    = mc::fmt( "channel %u (old map: %u, new map: %u)", log.ce_channel, o, w );
    }
    else
    {
        const bool radio = log.phy_count == phy_before + 1 && log.phy_rx == new_phy && log.phy_tx == new_phy;
        e.applied = radio;
        e.partly  = log.phy_count != phy_before;
        e.what    = mc::fmt( "radio_set_phy calls %u (rx %u tx %u), ll_phy_updated callbacks %u", log.phy_count - phy_before, log.phy_rx, log.phy_tx, g_obs.phy );
    }
    return e;
}

// What happens if the run is simply continued with received events (on a copy of the state)?  Used to tell "applied late" from
// "never applied" and to describe the consequences in the violation text; the signature does not depend on the details.
struct Probe { bool applied_later; unsigned when; bool ping_answered; bool closed; unsigned long events_until_applied; };

bool distinguishing( unsigned n ) { return g_ref.proc != P_CHANNEL_MAP || csa1( old_map, n ) != csa1( new_map, n ); }

Probe probe( bool very_long )
{
    Probe r{ false, 0, false, false, 0 };
    static Snapshot here; save( here );
    auto& ll = g_ll.get();
    for ( unsigned i = 0; i != 12 && !r.applied_later && !r.closed; ++i )
    {
        const auto pb = ll.log.phy_count, cb = g_obs.changed, ab = ll.log.adv_count;
        ll.sim_empty_event();
        if ( ll.log.adv_count != ab ) { r.closed = true; break; }
        const unsigned n = ll.connection_event_counter();
        if ( distinguishing( n ) && effects_of_step( n, pb, cb ).applied ) { r.applied_later = true; r.when = n; }
    }
    if ( !r.closed )
    {
        static const std::uint8_t ping[] = { 0x12 };
        ll.sim_ll_control( ping, 1 );
        for ( unsigned i = 0; i != 4 && !r.ping_answered; ++i )
        {
            const auto ab = ll.log.adv_count;
            ll.sim_empty_event();
            if ( ll.log.adv_count != ab ) { r.closed = true; break; }
            for ( unsigned t = 0; t != ll.log.tx_count && t != LLW_MAX_TX_LOG; ++t )
                if ( ll.log.tx[ t ].n == 3 && ll.log.tx[ t ].d[ 2 ] == 0x13 ) r.ping_answered = true;
        }
    }
    if ( very_long && !r.applied_later && !r.closed )
    {
        for ( unsigned long i = 0; i != 70000ul && !r.events_until_applied; ++i )
        {
            const auto pb = ll.log.phy_count, cb = g_obs.changed, ab = ll.log.adv_count;
            ll.sim_empty_event();
            if ( ll.log.adv_count != ab ) { r.closed = true; break; }
            const unsigned n = ll.connection_event_counter();
            if ( distinguishing( n ) && effects_of_step( n, pb, cb ).applied ) { r.events_until_applied = i + 17; r.when = n; }
        }
    }
    load( here );
    return r;
}

std::string probe_text( const Probe& r )
{
    std::string t = r.applied_later ? mc::fmt( "the new parameters show up at event %u", r.when )
                                    : std::string( "the new parameters are not applied in the following 12 received events either" );
    t += r.ping_answered ? "; a LL_PING_REQ sent then is answered" : "; a LL_PING_REQ sent then is not answered within 4 events (received data is not processed any more)";
    if ( r.closed ) t += "; link closed meanwhile";
    if ( r.events_until_applied ) t += mc::fmt( "; [long probe] applied after %lu further received events at event counter %u", r.events_until_applied, r.when );
    return t;
}

bool g_long_probe = false;  // replay mode: also look 70000 events ahead

// the new parameters were due, but are not in use
bool not_applied( Outcome& o, unsigned due, const std::string& what )
{
    const Probe r = probe( g_long_probe );
    return fail( o, sigof( r.applied_later ? "applied-after-instant" : "instant-accepted-never-applied" ),
        mc::fmt( "PDU received in event %u with instant %u accepted (link stays open), new parameters due at event %u, but: %s; %s",
            unsigned( g_ref.c_rx ), unsigned( std::uint16_t( g_ref.c_rx + g_ref.delta ) ), due, what.c_str(), probe_text( r ).c_str() ) );
}

// one connection event: received (the central sends up to max_pdus queued PDUs) or missed.  Returns false if an oracle failed or the link is closed.
bool step( bool received, Outcome& o, unsigned max_pdus = 1 )
{
    auto& ll = g_ll.get();
    const unsigned p          = ll.connection_event_counter();
    const auto     ce_before  = ll.log.ce_count, adv_before = ll.log.adv_count, phy_before = ll.log.phy_count;
    const auto     closed_before = g_obs.closed, changed_before = g_obs.changed;
    unsigned sent = 0, acked = 0;
    const std::uint8_t* const deferred = g_ref.phase == 1 ? ll.defered_ll_control_pdu_.buffer : nullptr;

    if ( received )
    {
        typename ll_t::radio_t::in_pdu in[ 4 ];
        for ( ; sent != max_pdus && sent != g_ref.qn; ++sent ) { in[ sent ].p = g_ref.q[ sent ]; in[ sent ].n = 2u + g_ref.q[ sent ][ 1 ]; }
        acked = ll.sim_connection_event( in, sent );
    }
    else
        ll.sim_timeout();

    if ( deferred && std::memcmp( deferred + 2, g_ref.proc_pdu + 2, g_ref.proc_pdu[ 1 ] ) != 0 ) g_ref.overwritten = 1;

    const bool closed = g_obs.closed != closed_before || ll.log.adv_count != adv_before;
    const unsigned n  = ll.connection_event_counter();

    if ( o.verbose )
    {
        std::string line = mc::fmt( "  event %u %s", p, received ? "received" : "missed" );
        if ( received )
        {
            for ( unsigned i = 0; i != sent; ++i ) line += " c->p " + mc::hex( g_ref.q[ i ], 2u + g_ref.q[ i ][ 1 ] ) + ( i < acked ? "" : "(not acknowledged)" );
            for ( unsigned i = 0; i != ll.log.tx_count && i != LLW_MAX_TX_LOG; ++i )
                if ( ll.log.tx[ i ].n > 2 ) line += " p->c " + mc::hex( ll.log.tx[ i ].d, ll.log.tx[ i ].n );
        }
        if ( closed ) line += mc::fmt( " => link closed, reason 0x%02x", g_obs.reason );
        else line += mc::fmt( " => next event %u on channel %u window [%u,%u] us interval %u us", n, ll.log.ce_channel, ll.log.ce_start_us, ll.log.ce_end_us, ll.log.ce_interval_us );
        if ( ll.log.phy_count != phy_before ) line += mc::fmt( " radio_set_phy(%u,%u)", ll.log.phy_rx, ll.log.phy_tx );
        if ( g_obs.changed != changed_before ) line += mc::fmt( " connection_changed(interval %u, latency %u, timeout %u)", g_obs.ch_interval, g_obs.ch_latency, g_obs.ch_timeout );
        line += mc::fmt( "  {rx ring front %d end %d, tx ring front %d end %d}",
            int( ll.receive_buffer_.front_ - ll.receive_buffer() ), int( ll.receive_buffer_.end_ - ll.receive_buffer() ),
            int( ll.transmit_buffer_.front_ - ll.transmit_buffer() ), int( ll.transmit_buffer_.end_ - ll.transmit_buffer() ) );
        vlog( o, line );
    }

    // ---- responses of the peripheral seen by the central in this event
    if ( received )
    {
        if ( ll.log.tx_count > LLW_MAX_TX_LOG ) return fail( o, "harness:tx-log-overflow", "more PDUs than the log holds" );
        for ( unsigned i = 0; i != ll.log.tx_count; ++i )
        {
            const llw::pdu& t = ll.log.tx[ i ];
            if ( t.n <= 2 ) continue;
            if ( ( t.d[ 0 ] & 3 ) == 3 && t.n == 3 && t.d[ 2 ] == 0x13 ) ++g_ref.got_ping;
            else if ( ( t.d[ 0 ] & 3 ) == 3 && t.n == 5 && t.d[ 2 ] == 0x17 ) ++g_ref.got_phy_rsp;
            else if ( ( t.d[ 0 ] & 3 ) == 2 && t.n == 8 && t.d[ 4 ] == 0x04 && t.d[ 6 ] == 0x0b && t.d[ 7 ] == 0x42 ) ++g_ref.got_att;
            else if ( g_ref.ending && ( t.d[ 0 ] & 3 ) == 3 && t.n == 4 && t.d[ 2 ] == 0x02 ) {}   // LL_TERMINATE_IND after disconnect()
            else return fail( o, sigof( "unexpected-pdu-from-peripheral" ), "the peripheral sent " + mc::hex( t.d, t.n < LLW_MAX_PDU ? t.n : LLW_MAX_PDU ) + " which answers nothing the central sent" );
        }
    }

    // ---- which PDUs did the peripheral take
    bool proc_delivered = false;
    for ( unsigned i = 0; i != acked; ++i )
    {
        switch ( kind_of( g_ref.q[ i ] ) )
        {
            case K_PING:    ++g_ref.exp_ping; break;
            case K_ATT:     ++g_ref.exp_att; break;
            case K_PHY_REQ: ++g_ref.exp_phy_rsp; break;
            case K_WRITE_CMD: g_ref.last_cmd_acked = g_ref.q[ i ][ 9 ]; break;
            case K_TERMINATE: break;
            default:        proc_delivered = true; break;
        }
    }
    if ( acked )
    {
        std::memmove( g_ref.q[ 0 ], g_ref.q[ acked ], ( g_ref.qn - acked ) * sizeof g_ref.q[ 0 ] );
        g_ref.qn = std::uint8_t( g_ref.qn - acked );
    }
    if ( g_ref.got_ping > g_ref.exp_ping || g_ref.got_att > g_ref.exp_att || g_ref.got_phy_rsp > g_ref.exp_phy_rsp )
        return fail( o, sigof( "response-without-request" ), "more responses than requests" );

    if ( proc_delivered )
    {
        // ( the instant was computed from the counter of this event; the receive buffer is empty whenever the procedure starts,
        //   so the PDU is never delayed by a retransmission )
        g_ref.c_rx = std::uint16_t( p );
        if ( closed )
        {
            g_ref.phase = 3; o.closed = true;
            if ( g_obs.closed != closed_before + 1 ) return fail( o, "harness:closed-callback-count", "not exactly one closed callback" );
            if ( g_ref.delta >= 2 && !instant_passed( g_ref.delta ) )
                return fail( o, sigof( "closed-although-instant-in-future" ), mc::fmt( "instant is %d events ahead, link closed with reason 0x%02x", g_ref.delta, g_obs.reason ) );
            if ( g_obs.reason != 0x28 )
                return fail( o, sigof( "closed-with-wrong-reason" ), mc::fmt( "link closed with reason 0x%02x instead of 0x28 (instant passed)", g_obs.reason ) );
            o.cls = "closed-0x28";
            return false;
        }
        g_ref.phase = 1;
        if ( instant_passed( g_ref.delta ) )
        {
            const Probe r = probe( g_long_probe );
            return fail( o, sigof( "instant-passed-accepted" ),
                mc::fmt( "PDU received in event %u with instant %u = counter%+d: ( instant - counter ) mod 65536 >= 32767, the instant is in the past, but the link is not closed with 0x28; %s",
                    p, unsigned( std::uint16_t( p + g_ref.delta ) ), g_ref.delta, probe_text( r ).c_str() ) );
        }
        g_ref.d_apply = std::uint16_t( g_ref.delta < 1 ? 1 : g_ref.delta );
    }
    else if ( closed && g_ref.ending )
    {
        g_ref.phase = 3; o.closed = true;
        return false;
    }
    else if ( closed && g_ref.phase == 1 )
    {
        g_ref.phase = 3; o.closed = true;
        return fail( o, sigof( "link-closed-while-procedure-pending" ), mc::fmt( "procedure accepted in event %u with instant %u ( valid parameters ); in event %u the link is closed with reason 0x%02x instead of the procedure being applied",
            unsigned( g_ref.c_rx ), unsigned( std::uint16_t( g_ref.c_rx + g_ref.delta ) ), p, g_obs.reason ) );
    }
    else if ( closed )
    {
        g_ref.phase = 3; o.closed = true;
        return fail( o, sigof( "link-closed-unexpectedly" ), mc::fmt( "link closed with reason 0x%02x in event %u", g_obs.reason, p ) );
    }

    if ( ll.log.ce_count != ce_before + 1 )
        return fail( o, sigof( "no-next-event-scheduled" ), mc::fmt( "%u calls of schedule_connection_event in one event", ll.log.ce_count - ce_before ) );
    if ( std::uint16_t( n - p ) > 1 ) ++o.skips;
    if ( std::uint16_t( n - p ) == 0 || std::uint16_t( n - p ) > 500 )
        return fail( o, sigof( "event-counter-jump" ), mc::fmt( "event counter went from %u to %u", p, n ) );

    // ---- procedure: applied exactly at the instant
    if ( g_ref.phase == 1 )
    {
        const unsigned dn = std::uint16_t( n - g_ref.c_rx );
        const Effects e = effects_of_step( n, phy_before, changed_before );
        if ( dn < g_ref.d_apply )
        {
            if ( e.partly )
                return fail( o, sigof( "applied-before-instant" ), mc::fmt( "event %u is %u events before the instant, but: %s", n, g_ref.d_apply - dn, e.what.c_str() ) );
        }
        else
        {
            // this step schedules the first event at or after the instant
            if ( g_ref.lat && std::uint16_t( n - p ) > 1 ) ++o.clamps;
            if ( !received ) ++o.missed_at_instant;
            if ( g_ref.delta >= 1 && dn > g_ref.d_apply )
                return fail( o, sigof( "instant-skipped-by-latency" ),
                    mc::fmt( "event %u listened, next listened event is %u: the event of the instant (%u) is skipped", p, n, unsigned( std::uint16_t( g_ref.c_rx + g_ref.delta ) ) ) );
            if ( !e.applied )
                return not_applied( o, n, e.what );
            g_ref.phase = 2;
            if ( g_ref.proc == P_CONN_UPDATE )
            {
                // transmit window: old anchor + ( n - anchor ) * old interval + offset ... + size
                const std::uint32_t t0 = std::uint16_t( n - ( received ? p : g_ref.anchor_cnt ) ) * g_ref.interval_us + new_win_offset * 1250u;
                if ( ll.log.ce_start_us > t0 || ll.log.ce_end_us < t0 + new_win_size * 1250u )
                    return fail( o, sigof( "transmit-window-not-covered" ), mc::fmt( "window [%u,%u] us does not cover the transmit window [%u,%u] us of the update",
                        ll.log.ce_start_us, ll.log.ce_end_us, t0, t0 + new_win_size * 1250u ) );
                g_ref.interval_us = new_interval * 1250u; g_ref.changed = g_obs.changed;
            }
            else if ( g_ref.proc == P_CHANNEL_MAP )
            {
                std::memcpy( g_ref.map, new_map, 5 );
                g_ref.unconfirmed = !distinguishing( n );
            }
            else
            {
                g_ref.phy_count = ll.log.phy_count;
                if ( g_obs.phy != 1 || g_obs.phy_a != new_phy || g_obs.phy_b != new_phy )
                    return fail( o, sigof( "phy-callback-missing" ), e.what );
            }
        }
    }

    // ---- parameters in force are used for every scheduled event
    if ( ll.log.ce_interval_us != g_ref.interval_us )
        return fail( o, sigof( "wrong-interval-in-force" ), mc::fmt( "event %u scheduled with interval %u us, in force: %u us", n, ll.log.ce_interval_us, g_ref.interval_us ) );
    if ( ll.log.ce_channel != csa1( g_ref.map, n ) )
    {
        if ( g_ref.unconfirmed && ll.log.ce_channel == csa1( old_map, n ) )
            return not_applied( o, std::uint16_t( g_ref.c_rx + g_ref.d_apply ), mc::fmt( "event %u uses channel %u (old map: %u, new map: %u)", n, ll.log.ce_channel, csa1( old_map, n ), csa1( new_map, n ) ) );
        return fail( o, sigof( "wrong-channel-map-in-force" ), mc::fmt( "event %u scheduled on channel %u, channel map in force gives %u", n, ll.log.ce_channel, csa1( g_ref.map, n ) ) );
    }
    if ( g_ref.unconfirmed && distinguishing( n ) ) g_ref.unconfirmed = 0;
    if ( ll.log.phy_count != g_ref.phy_count )
        return fail( o, sigof( "unexpected-radio-set-phy" ), mc::fmt( "radio_set_phy(%u,%u) called in event %u", ll.log.phy_rx, ll.log.phy_tx, p ) );
    if ( g_obs.changed != g_ref.changed )
        return fail( o, sigof( "unexpected-connection-changed-callback" ), mc::fmt( "connection_changed callback in event %u", p ) );

    if ( received ) g_ref.anchor_cnt = std::uint16_t( p );
    return true;
}

// ---------------------------------------------------------------------------------------------------------------
bool connect( int lat, Outcome& o )
{
    g_value = 0x42;
    std::memset( g_buf, 0, sizeof g_buf );
    std::memset( &g_obs, 0, sizeof g_obs );
    std::memset( &g_ref, 0, sizeof g_ref );
    g_ll.construct();
    auto& ll = g_ll.get();
    ll.run();
    if ( ll.log.adv_count != 1 ) return fail( o, "harness:not-advertising", "no advertising scheduled by run()" );
    cur_hop = hop;

    llw::connect_ind ci;
    ci.latency = std::uint16_t( lat ); ci.interval = old_interval; ci.timeout = old_timeout; ci.hop = hop;
    std::uint8_t pdu[ 40 ];
    const std::size_t n = ci.build( pdu, ll.log.adv_data );
    ll.sim_adv_received( pdu, n );
    if ( ll.log.ce_count != 1 ) return fail( o, "harness:not-connected", "CONNECT_IND not accepted" );

    g_ref.interval_us = old_interval * 1250u;
    std::memcpy( g_ref.map, old_map, 5 );
    g_ref.phy_count = ll.log.phy_count;
    vlog( o, mc::fmt( "  CONNECT_IND interval %u latency %d timeout %u hop %u -> first event on channel %u", old_interval, lat, old_timeout, hop, ll.log.ce_channel ) );
    return true;
}

// prefix: connection + ( LL_PHY_REQ exchange ) + shift LL_PING_REQ exchanges + k received empty events
bool prefix( const Case& c, Outcome& o )
{
    new_interval = update_sets[ c.uset ][ 0 ]; new_win_offset = update_sets[ c.uset ][ 1 ];
    if ( !connect( c.lat, o ) ) return false;
    g_ref.proc = std::uint8_t( c.proc ); g_ref.delta = 6; g_ref.lat = std::uint8_t( c.lat );
    if ( c.proc == P_PHY )
    {
        push_pdu( 0x03, { 0x16, 0x03, 0x03 } );
        if ( !step( true, o ) || !step( true, o ) ) return false;
        if ( g_ref.got_phy_rsp != 1 ) return fail( o, "harness:no-phy-rsp", "LL_PHY_REQ not answered" );
    }
    for ( int i = 0; i != c.shift; ++i )
    {
        push_ping();
        if ( !step( true, o ) ) return false;
    }
    for ( int i = 0; i != 4 && g_ref.got_ping != g_ref.exp_ping; ++i )
        if ( !step( true, o ) ) return false;
    for ( int i = 0; i != c.k; ++i )
        if ( !step( true, o ) ) return false;
    return true;
}

// the event in which the procedure PDU ( and with *_SAME_EVENT the traffic ) is received
bool deliver( const Case& c, Outcome& o )
{
    g_ref.delta = c.delta;
    const std::uint16_t instant = std::uint16_t( g_ll->connection_event_counter() + c.delta );
    push_procedure( c.proc, instant );
    std::memcpy( g_ref.proc_pdu, g_ref.q[ g_ref.qn - 1 ], sizeof g_ref.proc_pdu );
    unsigned npdus = 1;
    if ( c.traffic == T_PING_SAME_EVENT ) { push_ping(); npdus = 2; }
    if ( c.traffic == T_ATT_SAME_EVENT ) { push_att_read(); npdus = 2; }
    vlog( o, mc::fmt( "  procedure PDU with instant %u ( counter %u %+d )", unsigned( instant ), unsigned( g_ll->connection_event_counter() ), c.delta ) );
    const bool r = step( true, o, npdus );
    if ( r && g_ref.phase == 0 ) return fail( o, "harness:procedure-not-delivered", "procedure PDU not acknowledged" );
    return r;
}

bool all_answered()
{
    return g_ref.qn == 0 && g_ref.got_ping == g_ref.exp_ping && g_ref.got_att == g_ref.exp_att
        && ( g_ref.last_cmd_acked == 0 || g_buf[ 0 ] == g_ref.last_cmd_acked );
}

// pattern events + drain
void tail( const Case& c, Outcome& o )
{
    if ( c.traffic == T_PING ) push_ping();
    if ( c.traffic == T_ATT ) push_att_read();
    if ( c.traffic == T_LONG3 ) { push_long(); push_long(); push_long(); }
    for ( int j = 0; j != c.nev; ++j )
        if ( !step( ( c.pattern >> j ) & 1, o ) ) return;

    // drain: a LL_PING_REQ and received events only
    push_ping();
    for ( int j = 0; j != 12; ++j )
    {
        if ( g_ref.phase != 1 && all_answered() ) break;
        if ( !step( true, o ) ) return;
    }
    if ( g_ref.phase == 1 )
    {
        // instant not reached within the run ( delta beyond the horizon ): data may stay queued until the instant
        o.cls = "pending-beyond-horizon";
        return;
    }
    if ( g_ref.unconfirmed )
    {
        o.cls = "harness-channel-map-unconfirmed";
        return;
    }
    if ( !all_answered() )
    {
        fail( o, sigof( "data-processing-blocked-after-instant" ),
            mc::fmt( "after the instant and 12 more received events: %u PDUs of the central not acknowledged, LL_PING_RSP %u of %u, ATT responses %u of %u, last ATT Write Command acknowledged #%u, last one written to the characteristic #%u",
                unsigned( g_ref.qn ), unsigned( g_ref.got_ping ), unsigned( g_ref.exp_ping ), unsigned( g_ref.got_att ), unsigned( g_ref.exp_att ),
                unsigned( g_ref.last_cmd_acked ), unsigned( g_buf[ 0 ] ) ) );
        return;
    }
    o.cls = "applied-at-instant";
}

// ---- the connection ends while the procedure is pending, a second connection follows
// returns true if the link ended with the procedure still pending ( the scenario ), false otherwise ( o.sig set on an oracle failure )
bool end_connection( const Case& c, Outcome& o )
{
    auto& ll = g_ll.get();
    g_ref.ending = 1;
    vlog( o, mc::fmt( "  the connection is ended: %s", end_name[ c.end ] ) );
    if ( c.end == E_TERMINATE )
    {
        push_pdu( 0x03, { 0x02, 0x13 } );
        if ( !step( true, o ) ) return false;      // processed at once: the procedure was not pending any more ( or an oracle failed )
    }
    if ( c.end == E_DISCONNECT ) ll.disconnect();
    for ( int i = 0; i != 40; ++i )
    {
        const std::uint8_t phase_before = g_ref.phase;
        if ( !step( c.end == E_DISCONNECT, o ) )
            return o.sig.empty() && o.closed && phase_before == 1;
    }
    return false;
}

bool reconnect( const Case& c, Outcome& o )
{
    auto& ll = g_ll.get();
    const std::uint16_t stale = std::uint16_t( g_ref.c_rx + g_ref.delta );
    const auto ce_before = ll.log.ce_count;
    std::memset( &g_ref, 0, sizeof g_ref );
    g_ref.proc = std::uint8_t( c.proc ); g_ref.delta = c.delta; g_ref.second = std::uint8_t( c.end ); g_ref.stale_instant = stale;

    llw::connect_ind ci;
    ci.access_address = 0x8e89bed7u ^ 0x5a5a0000u; ci.crc_init = 0x123456;
    ci.interval = second_interval; ci.timeout = second_timeout; ci.latency = 0; ci.hop = second_hop; ci.win_offset = 2; ci.win_size = 1;
    std::memcpy( ci.map, second_map, 5 );
    std::uint8_t pdu[ 40 ];
    const std::size_t n = ci.build( pdu, ll.log.adv_data );
    ll.sim_adv_received( pdu, n );
    if ( ll.log.ce_count != ce_before + 1 ) return fail( o, "harness:second-connect-ind-not-accepted", "" );
    cur_hop = second_hop;
    g_ref.interval_us = second_interval * 1250u;
    std::memcpy( g_ref.map, second_map, 5 );
    g_ref.phy_count = ll.log.phy_count;
    g_ref.changed   = g_obs.changed;
    vlog( o, mc::fmt( "  second CONNECT_IND interval %u latency 0 timeout %u hop %u map channels 0..19 -> first event on channel %u ( instant of the old procedure: %u )",
        second_interval, second_timeout, second_hop, ll.log.ce_channel, unsigned( stale ) ) );
    if ( ll.log.ce_channel != csa1( g_ref.map, 0 ) || ll.log.ce_interval_us != g_ref.interval_us )
        return fail( o, "second-connection-first-event", mc::fmt( "first event on channel %u with interval %u us", ll.log.ce_channel, ll.log.ce_interval_us ) );
    return true;
}

// nev events by pattern, then received events until the old instant is 3 events behind, then LL_PING_REQ + drain
void second_connection( const Case& c, Outcome& o )
{
    for ( int j = 0; j != c.nev; ++j )
        if ( !step( ( c.pattern >> j ) & 1, o ) ) return;
    for ( int j = 0; j != 70; ++j )
    {
        const unsigned to_go = std::uint16_t( g_ref.stale_instant + 3 - g_ll->connection_event_counter() );
        if ( to_go == 0 || to_go >= 64 ) break;    // behind the old instant, or the old instant is out of reach
        if ( !step( true, o ) ) return;
    }
    push_ping();
    for ( int j = 0; j != 6 && !all_answered(); ++j )
        if ( !step( true, o ) ) return;
    if ( !all_answered() )
    {
        fail( o, sigof( "ping-unanswered" ), mc::fmt( "LL_PING_REQ not answered within 6 received events ( %u PDUs of the central not acknowledged )", unsigned( g_ref.qn ) ) );
        return;
    }
    o.cls = "second-connection-clean";
}

void run_case_from_scratch( const Case& c, Outcome& o )
{
    if ( !prefix( c, o ) ) return;
    if ( !deliver( c, o ) ) return;
    if ( c.end == E_NONE ) { tail( c, o ); return; }
    if ( !end_connection( c, o ) ) { if ( o.sig.empty() ) o.cls = "instant-reached-before-the-connection-ended"; return; }
    if ( !reconnect( c, o ) ) return;
    second_connection( c, o );
}

bool parse_case( const std::string& s, Case& c )
{
    return std::sscanf( s.c_str(), "case proc=%d lat=%d k=%d shift=%d delta=%d traffic=%d nev=%d pattern=%u end=%d uset=%d", &c.proc, &c.lat, &c.k, &c.shift, &c.delta, &c.traffic, &c.nev, &c.pattern, &c.end, &c.uset ) == 10
        && c.end >= 0 && c.end <= 3 && c.uset >= 0 && c.uset < n_update_sets
        && c.proc >= 0 && c.proc <= 2 && c.traffic >= 0 && c.traffic <= 5 && c.nev >= 0 && c.nev <= 16 && c.k >= 0 && c.k <= 64 && c.shift >= 0 && c.shift <= 200
        && c.lat >= 0 && c.lat <= 7;
}

} // namespace

int main( int argc, char** argv )
{
    mc::Args a = mc::parse_args( argc, argv );
    mc::Report rep; rep.property = "C21";
    rep.unit = a.opt.count( "unit" ) ? a.opt[ "unit" ] : "C21_instant";

    if ( !a.replay.empty() )
    {
        const mc::ReplayFile rf = mc::read_replay( a.replay );
        Case c;
        if ( rf.steps.empty() || !parse_case( rf.steps[ 0 ], c ) ) { printf( "cannot parse replay file\n" ); return 2; }
        Outcome o; o.verbose = true;
        g_long_probe = true;
        printf( "replaying on unit %s (peripheral latency configuration %s): %s\n", rep.unit.c_str(), latcfg_name, rf.steps[ 0 ].c_str() );
        run_case_from_scratch( c, o );
        for ( auto& l : o.log ) printf( "%s\n", l.c_str() );
        if ( o.sig == rf.sig ) { printf( "REPRODUCED %s: %s\n", o.sig.c_str(), o.detail.c_str() ); return 1; }
        printf( "not reproduced (outcome: %s %s)\n", o.sig.empty() ? "no violation" : o.sig.c_str(), o.cls.c_str() );
        return 0;
    }

    const bool th = a.thorough();
    std::vector< int > deltas = { -32768, -3, -2, -1, 0, 1, 2, 3, 6, 7, 32767 };
    std::vector< int > lats = { 0, 1, 3 }, ks = { 0, 1, 5 }, traffics = { T_NONE, T_PING, T_ATT };
    int nev = 8;
    if ( th )
    {
        deltas = { -32768, -32767, -3, -2, -1, 0, 1, 2, 3, 4, 5, 6, 7, 9, 32766, 32767 };
        lats = { 0, 1, 2, 3, 7 }; ks = { 0, 1, 2, 5 };
        traffics = { T_NONE, T_PING, T_ATT, T_LONG3, T_PING_SAME_EVENT, T_ATT_SAME_EVENT };
        nev = 10;
    }

    static Snapshot s_prefix, s_delivered;
    bool cut = false;
    std::map< std::string, std::uint64_t > per_class;

    auto report = [&]( const Case& c, Outcome& o )
    {
        if ( o.sig.empty() ) return;
        if ( !rep.violations.count( o.sig ) )
        {
            // determinism: the case has to give the same verdict twice when run from a newly constructed link layer
            for ( int r = 0; r != 2; ++r )
            {
                Outcome again; run_case_from_scratch( c, again );
                if ( again.sig != o.sig || again.detail != o.detail )
                {
                    fprintf( stderr, "NONDETERMINISM: %s not reproduced from scratch (%s)\n   %s\n", o.sig.c_str(), again.sig.c_str(), case_line( c ).c_str() );
                    exit( 2 );
                }
                ++rep.traces_validated;
            }
        }
        rep.fail( o.sig, case_line( c ) + " :: " + o.detail, { case_line( c ) } );
    };

    // one block of the product: all deltas x traffics x patterns behind one prefix
    auto block = [&]( int proc, int lat, int k, int shift, const std::vector< int >& ds, const std::vector< int >& ts, int n_events, bool all_patterns, int uset = 0 )
    {
        Case pc{ proc, lat, k, shift, 6, 0, 0, 0, 0, uset };
        Outcome po;
        if ( !prefix( pc, po ) )
        {
            if ( po.sig.empty() ) po.sig = "harness:prefix-failed";
            report( pc, po );
            return;
        }
        save( s_prefix );
        rep.transitions += g_ll->log.ce_count;

        for ( int delta : ds )
        for ( int traffic : ts )
        {
            load( s_prefix );
            Case c{ proc, lat, k, shift, delta, traffic, n_events, 0, 0, uset };
            Outcome d;
            const bool alive = deliver( c, d );
            ++rep.transitions;
            if ( !alive )
            {
                ++rep.evaluations; ++rep.traces_validated;
                c.nev = 0;
                report( c, d );
                const std::string cl = mc::fmt( "%s/%s/%s", proc_name[ proc ], delta_class( delta ), d.sig.empty() ? d.cls.c_str() : "VIOLATION" );
                rep.cls( cl ); ++per_class[ cl ];
                continue;
            }
            save( s_delivered );
            const std::uint32_t events_at_delivery = g_ll->log.ce_count + g_ll->log.adv_count;
            const unsigned all = ( 1u << n_events ) - 1;
            for ( unsigned pattern = all_patterns ? 0 : all; pattern <= all; ++pattern )
            {
                load( s_delivered );
                c.pattern = pattern;
                Outcome o;
                tail( c, o );
                ++rep.evaluations; ++rep.traces_validated;
                rep.transitions += g_ll->log.ce_count + g_ll->log.adv_count - events_at_delivery;
                report( c, o );
                const std::string cl = mc::fmt( "%s/%s/%s/%s", proc_name[ proc ], delta_class( delta ), traffic_name[ traffic ], o.sig.empty() ? o.cls.c_str() : "VIOLATION" );
                rep.cls( cl ); ++per_class[ cl ];
                if ( o.skips ) ++per_class[ "events-skipped-by-latency" ];
                if ( o.clamps ) ++per_class[ "latency-shortened-or-kept-to-meet-instant" ];
                if ( o.missed_at_instant ) ++per_class[ "instant-reached-through-missed-event" ];
                if ( o.sig.empty() && rep.samples.size() < 6 && ( rep.evaluations % 9973 ) == 1 )
                    rep.sample( case_line( c ) + " => " + o.cls );
            }
        }
    };

    for ( int proc = 0; proc != 3 && !cut; ++proc )
    for ( int lat : lats )
    for ( int k : ks )
    {
        if ( a.expired() ) { cut = true; break; }
        block( proc, lat, k, 0, deltas, traffics, nev, true );
    }

    // position of the deferred PDU in the receive ring: shift LL_PING_REQ exchanges (3 bytes each) before the procedure, long PDUs while pending
    const int max_shift = th ? 64 : 24;
    for ( int proc = 0; proc != 3 && !cut; ++proc )
    for ( int shift = 1; shift <= max_shift; ++shift )
    {
        if ( a.expired() ) { cut = true; break; }
        block( proc, 0, 0, shift, { 2, 3, 7 }, { T_LONG3, T_ATT }, 8, th );
    }

    // connection update towards a larger / smaller interval with the transmitWindowOffset at its limits
    for ( int uset = 1; uset != n_update_sets && !cut; ++uset )
    for ( int lat : ( th ? std::vector< int >{ 0, 1, 3 } : std::vector< int >{ 0, 1 } ) )
    {
        if ( a.expired() ) { cut = true; break; }
        block( P_CONN_UPDATE, lat, 0, 0, th ? std::vector< int >{ 2, 3, 6, 7 } : std::vector< int >{ 2, 3, 6 }, { T_NONE, T_PING }, 8, true, uset );
    }

    // the connection ends while the procedure is pending; a second connection follows
    {
        static Snapshot s_second;
        const std::vector< int > lats2 = th ? std::vector< int >{ 0, 1, 3 } : std::vector< int >{ 0 };
        const std::vector< int > ks2   = th ? std::vector< int >{ 0, 1, 5 } : std::vector< int >{ 0 };
        for ( int proc = 0; proc != 3 && !cut; ++proc )
        for ( int lat : lats2 ) for ( int k : ks2 )
        for ( int end = E_TERMINATE; end <= E_DISCONNECT; ++end )
        {
            // the instant has to be behind the end of the connection: > 24 missed events ( 720 ms / 30 ms ) resp. > 3 events for disconnect()
            const std::vector< int > ds = end == E_DISCONNECT ? ( th ? std::vector< int >{ 6, 7, 9, 40 } : std::vector< int >{ 6, 7 } )
                                                              : ( th ? std::vector< int >{ 30, 33, 40, 100, 32766 } : std::vector< int >{ 30, 33 } );
            for ( int delta : ds )
            {
                if ( a.expired() ) { cut = true; break; }
                Case c{ proc, lat, k, 0, delta, T_NONE, 8, 0, end };
                Outcome o;
                bool ready = prefix( c, o ) && deliver( c, o );
                if ( ready ) { ready = end_connection( c, o ); if ( !ready && o.sig.empty() ) o.cls = "instant-reached-before-the-connection-ended"; }
                if ( ready ) ready = reconnect( c, o );
                rep.transitions += g_ll->log.ce_count;
                if ( !ready )
                {
                    ++rep.evaluations; ++rep.traces_validated;
                    report( c, o );
                    const std::string cl = mc::fmt( "reconnect/%s/%s/%s", proc_name[ proc ], end_name[ end ], o.sig.empty() ? o.cls.c_str() : "VIOLATION" );
                    rep.cls( cl ); ++per_class[ cl ];
                    continue;
                }
                save( s_second );
                const std::uint32_t events_before = g_ll->log.ce_count + g_ll->log.adv_count;
                // the first event of the second connection is received ( otherwise 6 missed events rightly end the connection attempt )
                for ( unsigned pattern = 1; pattern < 256; pattern += 2 )
                {
                    load( s_second );
                    c.pattern = pattern;
                    Outcome so;
                    second_connection( c, so );
                    ++rep.evaluations; ++rep.traces_validated;
                    rep.transitions += g_ll->log.ce_count + g_ll->log.adv_count - events_before;
                    report( c, so );
                    const std::string cl = mc::fmt( "reconnect/%s/%s/%s", proc_name[ proc ], end_name[ end ], so.sig.empty() ? so.cls.c_str() : "VIOLATION" );
                    rep.cls( cl ); ++per_class[ cl ];
                }
            }
        }
    }

    for ( auto& kv : per_class ) rep.counters[ "cases " + kv.first ] = kv.second;
    rep.states = rep.evaluations;
    if ( cut ) { rep.exhaustive = false; rep.notes[ "cut" ] = "deadline hit, product not completed"; }
    rep.notes[ "bound" ] = mc::fmt( "procedures 3 x latency %zu x k %zu x delta %zu x traffic %zu x 2^%d received/missed patterns; plus receive ring positions 1..%d x delta {2,3,7} x {3 long PDUs, ATT}; plus connection update to interval 80 / 8 with winOffset {old+1, new} / {0, new}; plus connection ended while pending ( 3 ways ) + second connection x 2^7 patterns ( first event received ); peripheral latency configuration %s",
        lats.size(), ks.size(), deltas.size(), traffics.size(), nev, max_shift, latcfg_name );
    rep.write( a );
    return 0;
}
