// C01 - ATT input handling is memory safe and well framed.
//
// E2 (level "exploration"): exhaustive product  connection states x output buffer sizes x PDU alphabet  on the real
// bluetoe::server<>::l2cap_input() of one server configuration (C01_servers.hpp, -DC01_CFG=n, one executable each).
//
//   PDU alphabet  = natural PDUs   : every handled opcode x field alphabets (handles, ranges, offsets, UUIDs, value
//                                    lengths) + every other opcode 0x00..0xFF
//                 + length sweep   : every base PDU truncated / padded to every length 1..server MTU (3 pad patterns)
//   states        = prepared by requests from a fresh server (the list of requests is part of every replay trace)
//   evaluation    = restore the state image, put the input into an exact-size heap block, the output into an
//                   exact-size heap block, call l2cap_input under mc::Guard, run the oracles; a successful Prepare
//                   Write is followed by Execute Write (01) from the reached state (depth 2).
//
// Oracles (nothing but the property statement):
//   crash     SIGSEGV/SIGBUS/SIGILL/... inside l2cap_input
//   asan      ASan report (read outside the input block, write outside the output block, any other)
//   out-size  out_size' <= min( out_size given, negotiated MTU )
//   framing   request -> its response opcode or `01 <request opcode> <handle> <code>`; commands 0x52 / 0xD2, a
//             well-formed confirmation, 0x01 / 0x1B / 0x1D from the client -> no response
//   state     (intra-object overflow, invisible to ASan) server callback pointer and write queue bookkeeping intact
//
// Trace / replay lines:
//   prep c<k> <hex>             request executed on connection k to prepare the state (not judged)
//   enc c<k>                    the link of connection k becomes encrypted
//   eval c<k> out=<n> <hex>     judged call with an n byte output buffer
#include "../mc/mc.hpp"
#include "C01_servers.hpp"

#include <unistd.h>
#include <fcntl.h>

extern "C" {
    void __asan_set_error_report_callback( void (*)( const char* ) );
    // defaults only; the driver's ASAN_OPTIONS take precedence for the keys it sets.
    // suppress_equal_pcs=0: in recover mode ASan would otherwise report every faulting instruction only once per process,
    // i.e. later inputs (and the replays of the determinism check) would pass silently.
    __attribute__(( used, visibility( "default" ) )) const char* __asan_default_options()
    {
        return "suppress_equal_pcs=0:symbolize=0:print_legend=0:malloc_context_size=0:quarantine_size_mb=4:fast_unwind_on_fatal=1";
    }
}

namespace {

using namespace c01;
using Bytes  = std::vector< std::uint8_t >;
using conn_t = server_t::channel_data_t< bluetoe::details::link_state >;

constexpr std::size_t server_mtu = server_t::maximum_channel_mtu_size;

// ---------------------------------------------------------------------------------------------------------------
// write queue observation
template < class Q >
struct queue_probe
{
    static constexpr bool has_queue = false;
    static bool intact( server_t&, conn_t*, conn_t* ) { return true; }
    static int  first_queued_handle( server_t& ) { return -1; }
};

template < std::uint16_t S >
struct queue_probe< bluetoe::shared_write_queue< S > >
{
    using queue_t = bluetoe::details::write_queue< bluetoe::shared_write_queue< S > >;
    static constexpr bool has_queue = true;

    static bool intact( server_t& s, conn_t* c0, conn_t* c1 )
    {
        queue_t& q = ( queue_t& )s;
        if ( q.buffer_end_ > S )
            return false;

        const void* const c = q.current_client_;
        conn_t* const cons[ 2 ] = { c0, c1 };
        if ( c == nullptr )
            return true;

        for ( int k = 0; k != 2; ++k )
            if ( c == static_cast< void* >( cons[ k ] ) || c == static_cast< void* >( static_cast< server_t::connection_data* >( cons[ k ] ) ) )
                return true;

        return false;
    }

    static int first_queued_handle( server_t& s )
    {
        queue_t& q = ( queue_t& )s;
        return q.buffer_end_ >= 4 && q.buffer_end_ <= S ? q.buffer_[ 2 ] | ( q.buffer_[ 3 ] << 8 ) : -1;
    }
};

using qprobe = queue_probe< server_t::write_queue_type >;

// ---------------------------------------------------------------------------------------------------------------
// the world: real server, two real connections, bound values.  The three objects are separate globals so that ASan
// keeps red zones between them (a write past the end of the server object is reported instead of landing in a connection)
mc::Placed< server_t > g_srv;
mc::Placed< conn_t >   g_con0;
mc::Placed< conn_t >   g_con1;

struct ConPair
{
    mc::Placed< conn_t >& operator[]( int k ) { return k ? g_con1 : g_con0; }
};

struct World
{
    mc::Placed< server_t >& srv = g_srv;
    ConPair                con;
    mc::Regions            regs;        // everything a request can change
    mc::Regions            globals;     // the bound values / handler stores only
    std::vector< std::uint8_t > globals_initial;

    World()
    {
        globals.add( v_u8 );  globals.add( v_u16 ); globals.add( v_u32 );
        globals.add( v_a3 );  globals.add( v_a20 ); globals.add( v_a22 ); globals.add( v_a30 ); globals.add( v_a64 ); globals.add( v_a200 );
        globals.add( v_b1 );  globals.add( v_b2 );  globals.add( v_b3 );
        globals.add( h_blob ); globals.add( h_raw ); globals.add( h_word );
        globals_initial.resize( globals.size() );
        globals.save( globals_initial.data() );

        regs.add( srv.raw, sizeof srv.raw );
        regs.add( con[ 0 ].raw, sizeof con[ 0 ].raw );
        regs.add( con[ 1 ].raw, sizeof con[ 1 ].raw );
        for ( auto& r : globals.r ) regs.r.push_back( r );
    }

    void init();
};

World    w;
conn_t*  g_cur = nullptr;

bool l2cap_cb( const bluetoe::details::notification_data& item, void*, bluetoe::details::notification_type type )
{
    // what a link layer does with the callback
    switch ( type )
    {
    case bluetoe::details::notification_type::notification:
        return g_cur->queue_notification( item.client_characteristic_configuration_index() );
    case bluetoe::details::notification_type::indication:
        return g_cur->queue_indication( item.client_characteristic_configuration_index() );
    case bluetoe::details::notification_type::confirmation:
        g_cur->indication_confirmed();
        return true;
    }
    return true;
}

void World::init()
{
    globals.load( globals_initial.data() );
    srv.construct();
    con[ 0 ].construct();
    con[ 1 ].construct();
    srv->notification_callback( &l2cap_cb, &w );
}

// ---------------------------------------------------------------------------------------------------------------
// attribute table as the server itself describes it (used to build alphabets and to name input classes only)
struct Attr
{
    std::uint16_t handle;
    std::uint16_t uuid;
    std::string   kind;
    std::size_t   len;        // value length if readable, else 0
    bool          readable;
    Bytes         value;
};

std::vector< Attr >        attrs;
std::vector< std::string > kinds{ "-", "no-attribute" };    // index 0 / 1 are fixed
std::uint8_t               kind_by_handle[ 0x10000 ];       // index into kinds

int kind_index( const std::string& k )
{
    for ( std::size_t i = 0; i != kinds.size(); ++i ) if ( kinds[ i ] == k ) return int( i );
    kinds.push_back( k );
    return int( kinds.size() - 1 );
}

const std::string& kind_of_handle( int h ) { return kinds[ h >= 0 && h <= 0xFFFF ? kind_by_handle[ h ] : 1 ]; }

void discover_attributes()
{
    w.init();
    std::size_t value_no = 0;
    const std::size_t n_kinds = sizeof( value_kinds ) / sizeof( value_kinds[ 0 ] );
    memset( kind_by_handle, 1, sizeof kind_by_handle );

    for ( std::size_t i = 0; i != server_t::number_of_attributes; ++i )
    {
        Attr a;
        const auto at = server_t::attribute_at( i );
        a.handle = server_t::handle_mapping::handle_by_index( i );
        a.uuid   = at.uuid;

        if ( a.uuid == 0x2800 || a.uuid == 0x2801 ) a.kind = "service-decl";
        else if ( a.uuid == 0x2802 ) a.kind = "include";
        else if ( a.uuid == 0x2803 ) a.kind = "char-decl";
        else if ( a.uuid == 0x2902 ) a.kind = "cccd";
        else if ( a.uuid == 0x2901 ) a.kind = "user-desc";
        else if ( i > 0 && attrs.back().uuid == 0x2803 ) { a.kind = std::string( "value-" ) + ( value_no < n_kinds ? value_kinds[ value_no ] : "const" ); ++value_no; }
        else a.kind = "descriptor";

        std::uint8_t buf[ 600 ];
        auto read = bluetoe::details::attribute_access_arguments::read( buf, buf + sizeof buf, 0,
            w.con[ 0 ]->client_configurations(), bluetoe::details::link_state().security_attributes(), &w.srv.get() );
        // requires_encryption attributes are measured on an encrypted link
        read.connection_security.is_encrypted = true;
        a.readable = at.access( read, i ) == bluetoe::details::attribute_access_result::success;
        a.len      = a.readable ? read.buffer_size : 0;
        if ( a.readable ) a.value.assign( buf, buf + a.len );
        if ( a.handle ) kind_by_handle[ a.handle ] = std::uint8_t( kind_index( a.kind ) );
        attrs.push_back( a );
    }
    w.init();
}

// ---------------------------------------------------------------------------------------------------------------
// opcode table
const char* op_name( std::uint8_t op )
{
    switch ( op )
    {
    case 0x01: return "error-response";
    case 0x02: return "exchange-mtu";
    case 0x04: return "find-information";
    case 0x06: return "find-by-type-value";
    case 0x08: return "read-by-type";
    case 0x0A: return "read";
    case 0x0C: return "read-blob";
    case 0x0E: return "read-multiple";
    case 0x10: return "read-by-group-type";
    case 0x12: return "write";
    case 0x16: return "prepare-write";
    case 0x18: return "execute-write";
    case 0x1B: return "notification";
    case 0x1D: return "indication";
    case 0x1E: return "confirmation";
    case 0x52: return "write-command";
    case 0xD2: return "signed-write-command";
    }
    return "unknown-opcode";
}

// 0 = not a request the server implements
int response_opcode( int op )
{
    switch ( op )
    {
    case 0x02: case 0x04: case 0x06: case 0x08: case 0x0A: case 0x0C: case 0x0E: case 0x10: case 0x12: case 0x16: case 0x18:
        return op + 1;
    }
    return 0;
}

bool is_other_opcode( int op )
{
    return !response_opcode( op ) && op != 0x01 && op != 0x1B && op != 0x1D && op != 0x1E && op != 0x52 && op != 0xD2;
}

// ---------------------------------------------------------------------------------------------------------------
// exact-size heap blocks (ASan red zones on both sides), one per size, reused
struct BlockPool
{
    std::uint8_t* blocks[ 1024 ] = { nullptr };
    std::uint8_t* get( std::size_t n )
    {
        if ( n >= 1024 ) return new std::uint8_t[ n ];      // never used by the enumeration; replay of hand-made files only
        if ( !blocks[ n ] ) blocks[ n ] = new std::uint8_t[ n ];
        return blocks[ n ];
    }
};

BlockPool in_pool, out_pool;

// ---------------------------------------------------------------------------------------------------------------
struct Failure { std::string sig, detail; };

// response classes: 0 none, 1 crash, 2 asan, 3 malformed error response, 0x100 | code: error response, 0x200 | opcode: response
struct Outcome
{
    std::string           guard;          // "" | "asan" | "signal-n"
    const std::uint8_t*   out = nullptr;  // the output block (valid until the next call)
    std::size_t           out_size = 0;
    std::vector< Failure > fails;
    std::uint8_t          op = 0;
    int                   target = 0;     // index into kinds
    int                   rsp = 0;

    std::string cls() const
    {
        std::string r = op_name( op );
        if ( target ) r += ":" + kinds[ target ];
        r += rsp == 0 ? "/none" : rsp == 1 ? "/crash" : rsp == 2 ? "/asan" : rsp == 3 ? "/malformed-error"
           : ( rsp & 0x100 ) ? mc::fmt( "/err-%02x", rsp & 0xff ) : mc::fmt( "/rsp-%02x", rsp & 0xff );
        return r;
    }
    std::uint32_t cls_key() const { return ( std::uint32_t( op ) << 24 ) | ( std::uint32_t( target ) << 16 ) | std::uint32_t( rsp ); }
    std::string response_hex() const { return out && out_size <= 1024 ? mc::hex( out, out_size ) : std::string(); }
};

std::uint64_t total_asan_reports = 0;
std::uint64_t asan_reports_by_opcode[ 256 ] = { 0 };

// the text of the last ASan report (the __asan_get_report_* interface is reset when a recoverable report ends)
char asan_text[ 400 ];
void asan_report_callback( const char* text ) { strncpy( asan_text, text, sizeof asan_text - 1 ); asan_text[ sizeof asan_text - 1 ] = 0; }

struct AsanInfo { std::string description; const char* address; bool write; };
AsanInfo parse_asan_report()
{
    AsanInfo r{ "error", nullptr, false };
    if ( const char* p = strstr( asan_text, "AddressSanitizer: " ) )
    {
        p += 18;
        r.description.assign( p, strcspn( p, " \n" ) );
    }
    if ( const char* p = strstr( asan_text, "on address 0x" ) )
        r.address = reinterpret_cast< const char* >( strtoull( p + 11, nullptr, 16 ) );
    r.write = strstr( asan_text, "\nWRITE of size" ) != nullptr;
    return r;
}

// mc::Guard::call with sigsetjmp( ..., 0 ): the handler is installed with SA_NODEFER and an empty sa_mask, so the signal
// mask never changes and need not be saved (saves two system calls per evaluation).  0 = fine, -1 = ASan report, n = signal
int guarded_l2cap_input( const std::uint8_t* in, std::size_t len, std::uint8_t* out, std::size_t& out_size, conn_t& con )
{
    const int before = mc::Guard::asan_errors();
    if ( sigsetjmp( mc::Guard::jb(), 0 ) == 0 )
    {
        mc::Guard::armed() = 1;
        w.srv->l2cap_input( in, len, out, out_size, con );
        mc::Guard::armed() = 0;
    }
    else
    {
        return mc::Guard::last_signal();
    }
    return mc::Guard::asan_errors() != before ? -1 : 0;
}

// one call into bluetoe from the *current* state of the world + all oracles
void call_and_check( Outcome& o, int con_no, std::size_t out_given, const std::uint8_t* input, std::size_t len )
{
    o.guard.clear(); o.fails.clear(); o.out = nullptr; o.out_size = 0; o.rsp = 0; o.target = 0;

    conn_t& con = w.con[ con_no ].get();
    const std::uint8_t  op   = input[ 0 ];
    const std::size_t   neg  = con.negotiated_mtu();
    const bool          queue_was_intact = qprobe::intact( w.srv.get(), &w.con[ 0 ].get(), &w.con[ 1 ].get() );
    o.op = op;

    if ( ( op == 0x0A || op == 0x0C || op == 0x12 || op == 0x52 || op == 0xD2 || op == 0x16 ) && len >= 3 )
        o.target = kind_by_handle[ input[ 1 ] | ( input[ 2 ] << 8 ) ];
    else if ( op == 0x18 )
    {
        const int queued = qprobe::first_queued_handle( w.srv.get() );
        if ( queued >= 0 ) o.target = kind_by_handle[ queued ];
    }

    std::uint8_t* const in  = in_pool.get( len );
    std::uint8_t* const out = out_pool.get( out_given );
    memcpy( in, input, len );
    memset( out, 0xEE, out_given );

    std::size_t out_size = out_given;
    g_cur = &con;
    const int guard = guarded_l2cap_input( in, len, out, out_size, con );

    if ( guard )
    {
        const std::string opn = op_name( op );
        o.guard = guard < 0 ? std::string( "asan" ) : mc::fmt( "signal-%d", guard );
        if ( guard < 0 )
        {
            ++total_asan_reports;
            ++asan_reports_by_opcode[ op ];
            const AsanInfo info = parse_asan_report();
            const char* const a     = info.address;
            const bool        write = info.write;
            std::string where = info.description;
            const char* const ib = reinterpret_cast< const char* >( in );
            const char* const ob = reinterpret_cast< const char* >( out );
            if ( a && a >= ib - 64 && a < ib + len + 64 )             where = "outside-input";
            else if ( a && a >= ob - 64 && a < ob + out_given + 64 )  where = "outside-output";

            o.fails.push_back( Failure{ "asan:" + std::string( write ? "write-" : "read-" ) + where + ":" + opn,
                mc::fmt( "AddressSanitizer: %s %s (offset %ld from the block start) while handling %s", write ? "write" : "read", where.c_str(),
                    where == "outside-input" ? long( a - ib ) : where == "outside-output" ? long( a - ob ) : 0l, opn.c_str() ) } );
            o.rsp = 2;
        }
        else
        {
            o.fails.push_back( Failure{ "crash:" + opn + ":" + kinds[ o.target ],
                "l2cap_input() ended with " + o.guard + " while handling " + opn + " (target " + kinds[ o.target ] + ")" } );
            o.rsp = 1;
        }
        return;
    }

    o.out_size = out_size;

    // out_size' <= min( out_size given, negotiated MTU )
    if ( out_size > out_given )
    {
        o.fails.push_back( Failure{ std::string( "out-size:exceeds-buffer:" ) + op_name( op ), mc::fmt( "out_size %zu returned for a %zu byte output buffer", out_size, out_given ) } );
        return;
    }
    o.out = out;
    if ( out_size > neg )
    {
        o.fails.push_back( Failure{ std::string( "out-size:exceeds-mtu:" ) + op_name( op ), mc::fmt( "out_size %zu returned, negotiated MTU is %zu", out_size, neg ) } );
        return;
    }

    // intra-object damage
    if ( w.srv->l2cap_cb_ != &l2cap_cb || w.srv->l2cap_arg_ != &w )
        o.fails.push_back( Failure{ std::string( "state:server-callback-corrupted:" ) + op_name( op ), "l2cap_cb_/l2cap_arg_ of the server changed during l2cap_input" } );
    if ( queue_was_intact && !qprobe::intact( w.srv.get(), &w.con[ 0 ].get(), &w.con[ 1 ].get() ) )
        o.fails.push_back( Failure{ std::string( "state:write-queue-corrupted:" ) + op_name( op ), "write queue bookkeeping (buffer_end_ / current_client_) out of range after l2cap_input" } );

    // framing
    const bool is_error = out_size == 5 && out[ 0 ] == 0x01 && out[ 1 ] == op;
    o.rsp = out_size == 0 ? 0 : is_error ? ( 0x100 | out[ 4 ] ) : out[ 0 ] == 0x01 ? 3 : ( 0x200 | out[ 0 ] );
    const int expected = response_opcode( op );
    const char* sig = nullptr;
    const char* what = "";

    if ( expected )
    {
        // A request that ends before its last mandatory field (ATT: fixed part of the PDU) can not be answered from "the bytes
        // of that PDU" alone: a success response to it means the missing field was taken from somewhere else.
        static const struct { int op; std::size_t min; } mandatory[] = {
            { 0x02, 3 }, { 0x04, 5 }, { 0x06, 7 }, { 0x08, 7 }, { 0x0A, 3 }, { 0x0C, 5 }, { 0x0E, 5 }, { 0x10, 7 },
            { 0x12, 3 }, { 0x16, 5 }, { 0x18, 2 } };
        std::size_t min_len = 1;
        for ( const auto& m : mandatory ) if ( m.op == op ) min_len = m.min;

        if ( out_size == 0 )                              { sig = "framing:no-response:";    what = "request got no response: "; }
        else if ( !is_error && out[ 0 ] != expected )     { sig = "framing:wrong-response:"; what = "request answered with "; }
        else if ( !is_error && len < min_len )            { sig = "framing:truncated-request-accepted:"; what = "request shorter than its mandatory fields answered with "; }
    }
    else if ( op == 0x52 || op == 0xD2 )
    {
        if ( out_size != 0 )                              { sig = "framing:response-to-command:"; what = "command answered with "; }
    }
    else if ( op == 0x1E )
    {
        // scope: a malformed confirmation may be answered with an Error Response (pinned by indication_tests/broken_pdu)
        if ( out_size != 0 && ( len == 1 || !is_error ) ) { sig = "framing:response-to-"; what = "confirmation answered with "; }
    }
    else if ( op == 0x01 || op == 0x1B || op == 0x1D )
    {
        if ( out_size != 0 )                              { sig = "framing:response-to-"; what = "PDU that must not be answered got "; }
    }
    else
    {
        // any other opcode: treated as an unsupported request (scope: incl. opcodes that only have the command flag,
        // pinned by request_not_supported_tests); silence is accepted as well
        if ( out_size != 0 && !is_error )                 { sig = "framing:wrong-response:"; what = "unknown opcode answered with "; }
    }

    if ( sig )
        o.fails.push_back( Failure{ std::string( sig ) + op_name( op ), mc::fmt( "0x%02x: ", op ) + what + mc::hex( out, std::min< std::size_t >( out_size, 24 ) ) } );
}

// ---------------------------------------------------------------------------------------------------------------
struct State
{
    std::string                 name;
    std::vector< std::string >  prep;
    std::vector< std::uint8_t > image;
    std::size_t                 negotiated = 0;
    std::uint64_t               evaluations = 0;
};

Bytes raw_request( int con_no, const Bytes& pdu )
{
    std::uint8_t out[ 512 ];
    std::size_t  n = sizeof out;
    g_cur = &w.con[ con_no ].get();
    const std::string g = mc::Guard::call( [&]{ w.srv->l2cap_input( pdu.data(), pdu.size(), out, n, w.con[ con_no ].get() ); } );
    if ( !g.empty() ) return Bytes{ 0xFF, 0xFF };
    return Bytes( out, out + n );
}

struct Found
{
    std::uint64_t              count = 0;
    std::string                detail;
    std::vector< std::string > trace;
    std::uint64_t              cost = ~0ull;
};

std::map< std::string, Found > found;
mc::Report rep;

// executes a trace on a fresh world; returns the failures of the eval steps
std::vector< Failure > run_trace( const std::vector< std::string >& steps, bool verbose, std::string* obs = nullptr )
{
    std::vector< Failure > result;
    Outcome o;
    w.init();
    for ( auto& s : steps )
    {
        std::istringstream is( s );
        std::string kind, c, a, b;
        is >> kind >> c;
        const int con_no = c.size() > 1 ? c[ 1 ] - '0' : 0;
        if ( con_no < 0 || con_no > 1 ) continue;
        if ( kind == "prep" )
        {
            is >> a;
            const Bytes r = raw_request( con_no, mc::unhex( a ) );
            if ( verbose ) printf( "  prep  c%d  %s -> %s\n", con_no, a.c_str(), mc::hex( r ).c_str() );
        }
        else if ( kind == "enc" )
        {
            w.con[ con_no ]->is_encrypted( true );
            if ( verbose ) printf( "  enc   c%d\n", con_no );
        }
        else if ( kind == "eval" )
        {
            is >> a >> b;
            const std::size_t out_given = a.size() > 4 ? atol( a.c_str() + 4 ) : 0;
            const Bytes in = mc::unhex( b );
            if ( in.empty() || out_given == 0 ) continue;
            call_and_check( o, con_no, out_given, in.data(), in.size() );
            ++rep.traces_validated;
            if ( verbose )
            {
                printf( "  eval  c%d  out=%zu  %s -> %s%s  [%s]\n", con_no, out_given, b.c_str(), o.guard.empty() ? "" : ( o.guard + " " ).c_str(),
                    o.response_hex().c_str(), o.cls().c_str() );
                for ( auto& f : o.fails ) printf( "    FAIL %s: %s\n", f.sig.c_str(), f.detail.c_str() );
            }
            if ( obs ) *obs += o.guard + "/" + o.response_hex() + ";";
            for ( auto& f : o.fails ) result.push_back( f );
        }
    }
    return result;
}

void record( const Failure& f, const std::vector< std::string >& trace, std::uint64_t cost )
{
    Found& e = found[ f.sig ];
    ++e.count;
    if ( e.count == 1 )
    {
        // determinism: the trace has to reproduce the signature twice from a fresh world
        std::vector< std::uint8_t > keep( w.regs.size() );
        w.regs.save( keep.data() );
        std::string o[ 2 ];
        bool ok[ 2 ] = { false, false };
        for ( int k = 0; k != 2; ++k )
            for ( auto& g : run_trace( trace, false, &o[ k ] ) )
                if ( g.sig == f.sig ) ok[ k ] = true;
        w.regs.load( keep.data() );
        if ( !ok[ 0 ] || !ok[ 1 ] || o[ 0 ] != o[ 1 ] )
        {
            printf( "NONDETERMINISM: signature %s not reproduced on replay (unit %s)\n", f.sig.c_str(), rep.unit.c_str() );
            for ( auto& l : trace ) printf( "   %s\n", l.c_str() );
            exit( 2 );
        }
    }
    if ( cost < e.cost )
    {
        e.cost   = cost;
        e.trace  = trace;
        e.detail = f.detail;
    }
}

// ---------------------------------------------------------------------------------------------------------------
// alphabets
std::vector< int >   handles_all;      // single handle fields: 0 .. last+2, 0xFFFF
std::vector< int >   handles_edge;     // range fields: 0, every attribute handle, first/last handle of every gap, last+1, 0xFFFF
std::vector< int >   handles_real;
std::vector< int >   offsets;
std::vector< int >   value_lengths;
std::vector< Bytes > uuids;            // 2 or 16 bytes, little endian
std::vector< Bytes > service_values;   // values for Find By Type Value
int                  hot_handle = 1;   // readable attribute with the longest value
int                  last_handle = 0;

void add_unique( std::vector< int >& v, int x ) { if ( x >= 0 && x <= 0xFFFF && std::find( v.begin(), v.end(), x ) == v.end() ) v.push_back( x ); }
void add_unique( std::vector< Bytes >& v, const Bytes& x ) { if ( std::find( v.begin(), v.end(), x ) == v.end() ) v.push_back( x ); }

// PDU builder
struct P
{
    Bytes b;
    explicit P( int op ) { b.push_back( std::uint8_t( op ) ); }
    P& h( int x ) { b.push_back( std::uint8_t( x & 0xff ) ); b.push_back( std::uint8_t( ( x >> 8 ) & 0xff ) ); return *this; }
    P& o( int x ) { b.push_back( std::uint8_t( x ) ); return *this; }
    P& v( const Bytes& x ) { b.insert( b.end(), x.begin(), x.end() ); return *this; }
    P& f( int n, int pattern ) { for ( int i = 0; i < n; ++i ) b.push_back( pattern == 0 ? 0 : std::uint8_t( i + 1 ) ); return *this; }
};

Bytes le16( int x ) { return P( x & 0xff ).o( x >> 8 ).b; }
Bytes base128( int x )
{
    static const std::uint8_t base[] = { 0xFB, 0x34, 0x9B, 0x5F, 0x80, 0x00, 0x00, 0x80, 0x00, 0x10, 0x00, 0x00 };
    Bytes b( base, base + sizeof base );
    b.push_back( std::uint8_t( x & 0xff ) ); b.push_back( std::uint8_t( x >> 8 ) ); b.push_back( 0 ); b.push_back( 0 );
    return b;
}

void build_alphabets()
{
    std::size_t longest = 0;
    for ( auto& a : attrs )
    {
        if ( a.handle ) { add_unique( handles_real, a.handle ); last_handle = std::max< int >( last_handle, a.handle ); }
        if ( a.readable && a.handle && a.len > longest ) { longest = a.len; hot_handle = a.handle; }
    }
    std::sort( handles_real.begin(), handles_real.end() );

    for ( int h = 0; h <= last_handle + 2; ++h ) add_unique( handles_all, h );
    add_unique( handles_all, 0xFFFF );

    add_unique( handles_edge, 0 );
    add_unique( handles_edge, 1 );
    for ( int h : handles_real )
    {
        add_unique( handles_edge, h );
        if ( h > 1 && kind_by_handle[ h - 1 ] == 1 ) add_unique( handles_edge, h - 1 );
        if ( kind_by_handle[ h + 1 ] == 1 ) add_unique( handles_edge, h + 1 );
    }
    add_unique( handles_edge, 0xFFFF );
    std::sort( handles_edge.begin(), handles_edge.end() );

    // lengths of everything in the database + the sizes behind attributes that cannot be read
    std::vector< int > lens;
    for ( auto& a : attrs ) if ( a.readable ) add_unique( lens, int( a.len ) );
    for ( int n : { 1, 2, 4, 8, 24, 30 } ) add_unique( lens, n );

    for ( int o : { 0, 1, 0xFFFF, int( server_mtu ) - 2, int( server_mtu ) - 1, int( server_mtu ) } ) add_unique( offsets, o );
    for ( int n : lens ) { add_unique( offsets, n - 1 ); add_unique( offsets, n ); add_unique( offsets, n + 1 ); }
    std::sort( offsets.begin(), offsets.end() );

    for ( int n : { 0, 1, 2, 3, 4, 5, 18, 19, 20 } ) add_unique( value_lengths, n );
    for ( int n : lens ) { add_unique( value_lengths, n - 1 ); add_unique( value_lengths, n ); add_unique( value_lengths, n + 1 ); }
    add_unique( value_lengths, int( server_mtu ) - 3 );
    add_unique( value_lengths, int( server_mtu ) - 5 );
    value_lengths.erase( std::remove_if( value_lengths.begin(), value_lengths.end(), []( int n ){ return n > int( server_mtu ) - 3; } ), value_lengths.end() );
    std::sort( value_lengths.begin(), value_lengths.end() );

    // UUIDs
    for ( int u : { 0x2800, 0x2801, 0x2802, 0x2803, 0x2902, 0x2901, 0xFFF0 } ) add_unique( uuids, le16( u ) );
    int first_value_type = 0;
    for ( std::size_t i = 0; i != attrs.size(); ++i )
    {
        const Attr& a = attrs[ i ];
        if ( a.uuid != 0x0001 )
        {
            add_unique( uuids, le16( a.uuid ) );
            if ( !first_value_type && a.kind.rfind( "value-", 0 ) == 0 ) first_value_type = a.uuid;
        }
        else if ( i > 0 && attrs[ i - 1 ].value.size() == 19 )
            add_unique( uuids, Bytes( attrs[ i - 1 ].value.begin() + 3, attrs[ i - 1 ].value.end() ) );

        if ( a.kind == "service-decl" && a.readable )
            add_unique( service_values, a.value );
    }
    add_unique( uuids, base128( 0x2803 ) );
    add_unique( uuids, base128( 0x2800 ) );
    if ( first_value_type ) add_unique( uuids, base128( first_value_type ) );
    Bytes unknown128; for ( int i = 0; i != 16; ++i ) unknown128.push_back( std::uint8_t( 0xA0 + i ) );
    add_unique( uuids, unknown128 );

    add_unique( service_values, le16( 0xFFF0 ) );
    add_unique( service_values, unknown128 );
}

// natural (well-formed or nearly well-formed) PDUs
void natural_pdus( std::vector< Bytes >& out )
{
    auto f = [&]( const P& p ){ if ( p.b.size() <= server_mtu ) out.push_back( p.b ); };

    // Exchange MTU
    for ( int m : { 0, 1, 22, 23, 24, 64, 65, 66, 246, 247, 248, 512, 0xFFFF } ) f( P( 0x02 ).h( m ) );

    // Find Information
    for ( int s : handles_edge ) for ( int e : handles_edge ) f( P( 0x04 ).h( s ).h( e ) );

    // Find By Type Value
    for ( int s : handles_edge ) for ( int e : handles_edge ) for ( auto& v : service_values )
        f( P( 0x06 ).h( s ).h( e ).h( 0x2800 ).v( v ) );
    for ( int t : { 0x2800, 0x2801, 0x2803, 0xFFF0 } ) for ( int s : { 1, last_handle } )
    {
        for ( auto& v : service_values ) f( P( 0x06 ).h( s ).h( 0xFFFF ).h( t ).v( v ) );
        f( P( 0x06 ).h( s ).h( 0xFFFF ).h( t ) );
        f( P( 0x06 ).h( s ).h( 0xFFFF ).h( t ).o( 0 ) );
    }

    // Read By Type, Read By Group Type
    for ( int op : { 0x08, 0x10 } )
        for ( int s : handles_edge ) for ( int e : handles_edge ) for ( auto& u : uuids )
            f( P( op ).h( s ).h( e ).v( u ) );

    // Read, Read Blob
    for ( int h : handles_all ) f( P( 0x0A ).h( h ) );
    for ( int h : handles_all ) for ( int o : offsets ) f( P( 0x0C ).h( h ).h( o ) );

    // Read Multiple
    for ( int a : handles_edge ) for ( int b : handles_edge ) f( P( 0x0E ).h( a ).h( b ) );
    for ( int a : handles_real ) f( P( 0x0E ).h( a ).h( a ).h( a ) );
    for ( int a : handles_real ) f( P( 0x0E ).h( a ) );
    {
        P all( 0x0E ), hot( 0x0E );
        for ( int a : handles_real ) if ( all.b.size() + 2 <= server_mtu ) all.h( a );
        while ( hot.b.size() + 2 <= server_mtu ) hot.h( hot_handle );
        f( all ); f( hot );
    }

    // Write Request, Write Command, Signed Write Command
    static const Bytes small_values[] = { Bytes{ 0, 0 }, Bytes{ 1, 0 }, Bytes{ 2, 0 }, Bytes{ 3, 0 }, Bytes{ 0xFF, 0xFF }, Bytes{ 1 }, Bytes{ 0 }, Bytes{ 2 }, Bytes{ 1, 0, 0 } };
    for ( int op : { 0x12, 0x52, 0xD2 } )
    {
        const int sig = op == 0xD2 ? 12 : 0;
        for ( int h : handles_all ) for ( int n : value_lengths ) for ( int p : { 1, 0 } )
            f( P( op ).h( h ).f( n, p ).f( sig, 1 ) );
        for ( auto& a : attrs ) if ( a.handle && ( a.kind == "cccd" || a.kind == "value-control-point" || a.kind == "value-handler" ) )
            for ( auto& v : small_values )
                f( P( op ).h( a.handle ).v( v ).f( sig, 1 ) );
    }

    // Prepare Write
    for ( int h : handles_all )
    {
        std::vector< int > offs{ 0, 1, 0xFFFF }, lens{ 0, 1, 2, 18 };
        for ( auto& a : attrs ) if ( a.handle == h && a.handle )
        {
            const int n = a.readable ? int( a.len ) : a.kind == "cccd" ? 2 : 4;
            for ( int x : { n - 1, n, n + 1 } ) { add_unique( offs, x ); add_unique( lens, x ); }
        }
        for ( int o : offs ) for ( int n : lens ) f( P( 0x16 ).h( h ).h( o ).f( n, 1 ) );
    }

    // Execute Write
    f( P( 0x18 ) ); f( P( 0x18 ).o( 0 ) ); f( P( 0x18 ).o( 1 ) ); f( P( 0x18 ).o( 2 ) ); f( P( 0x18 ).o( 0xFF ) ); f( P( 0x18 ).o( 1 ).o( 0 ) ); f( P( 0x18 ).o( 0 ).o( 0 ) );

    // Confirmation, Error Response, Notification, Indication sent by the client
    f( P( 0x1E ) ); f( P( 0x1E ).o( 0 ) ); f( P( 0x1E ).h( 3 ) );
    f( P( 0x01 ) ); f( P( 0x01 ).o( 0x0A ).h( 3 ).o( 0x0A ) ); f( P( 0x01 ).o( 0 ).h( 0 ).o( 0 ) ); f( P( 0x01 ).o( 0x1D ).h( 0 ).o( 6 ) );
    f( P( 0x01 ).o( 0x01 ).h( 0 ).o( 6 ) ); f( P( 0x01 ).o( 0x12 ).h( 0xFFFF ).o( 0xFF ).o( 0 ) );
    for ( int op : { 0x1B, 0x1D } )
    {
        for ( int h : { 0, hot_handle, 0xFFFF } ) for ( int n : { 0, 1, 20 } ) f( P( op ).h( h ).f( n, 1 ) );
        f( P( op ) );
    }

    // every other opcode
    for ( int op = 0; op != 256; ++op )
        if ( is_other_opcode( op ) )
            for ( int n : { 1, 2, 3, 5, 7, 23 } )
            {
                P p( op );
                p.h( hot_handle ).h( 0xFFFF ).h( 0x2800 ).f( 16, 1 );
                p.b.resize( n );
                f( p );
            }
}

// base PDUs of the length sweep (every length 1..server MTU of each of them)
void sweep_bases( std::vector< Bytes >& out, bool thorough )
{
    auto f = [&]( const P& p ){ out.push_back( p.b ); };

    f( P( 0x02 ).h( 23 ) );
    for ( int op : { 0x04, 0x06, 0x08, 0x10 } )
    {
        std::vector< Bytes > tails{ Bytes() };
        if ( op == 0x06 ) { tails.clear(); for ( auto& v : service_values ) tails.push_back( P( 0x00 ).o( 0x28 ).v( v ).b ); }
        if ( op == 0x08 ) tails = { le16( 0x2803 ), base128( 0x2803 ), uuids.back() };
        if ( op == 0x10 ) tails = { le16( 0x2800 ), base128( 0x2800 ), uuids.back() };
        for ( auto& t : tails )
        {
            f( P( op ).h( 1 ).h( 0xFFFF ).v( t ) );
            f( P( op ).h( handles_real.front() ).h( last_handle ).v( t ) );
        }
    }
    for ( int op : { 0x0A, 0x0C, 0x12, 0x52, 0xD2, 0x16 } )
        for ( int h : thorough ? handles_all : handles_edge )
        {
            if ( op == 0x0C ) f( P( op ).h( h ).h( 0 ) );
            else if ( op == 0x16 ) { f( P( op ).h( h ).h( 0 ) ); f( P( op ).h( h ).h( 1 ) ); }
            else f( P( op ).h( h ) );
        }
    f( P( 0x0E ).h( hot_handle ).h( hot_handle ) );
    f( P( 0x0E ).h( handles_real.front() ).h( last_handle ) );
    f( P( 0x18 ).o( 1 ) ); f( P( 0x18 ).o( 0 ) );
    f( P( 0x1E ) );
    f( P( 0x01 ).o( 0x0A ).h( 3 ).o( 0x0A ) );
    f( P( 0x1B ).h( hot_handle ) );
    f( P( 0x1D ).h( hot_handle ) );
    for ( int op : { 0x00, 0x03, 0x05, 0x0B, 0x13, 0x17, 0x20, 0x23, 0x41, 0x56, 0x58, 0x65, 0x92, 0xFF } ) f( P( op ) );
    if ( thorough )
        for ( int op = 0; op != 256; ++op )
            if ( is_other_opcode( op ) )
                f( P( op ) );
}

// pattern 0: zeros, 1: 0xFF, 2: handle of the readable attribute with the longest value, aligned like a handle list
void resize_pdu( Bytes& r, const Bytes& base, std::size_t len, int pad )
{
    r.assign( base.begin(), base.begin() + std::min( len, base.size() ) );
    for ( std::size_t i = r.size(); i < len; ++i )
        r.push_back( pad == 0 ? 0x00 : pad == 1 ? 0xFF : ( i & 1 ) ? std::uint8_t( hot_handle & 0xff ) : std::uint8_t( hot_handle >> 8 ) );
}

// ---------------------------------------------------------------------------------------------------------------
std::vector< State > states;
const mc::Args*      args = nullptr;
bool                 cut  = false;
std::uint64_t        since_check = 0;
int                  stderr_closed = 0;
std::uint64_t        prepare_execute_evaluations = 0;
std::uint64_t        preparation_evaluations = 0;
std::uint64_t        skipped_after_asan_flood = 0;
constexpr std::uint64_t asan_flood_cap = 300;     // an ASan report costs ~10 ms
std::unordered_set< std::uint32_t > class_keys, class_keys_after_prepare;
Outcome              oc, oe;

void note_failures( const Outcome& o, const State& st, int state_no, const std::vector< std::string >& steps, std::size_t pdu_size )
{
    std::vector< std::string > trace = st.prep;
    trace.insert( trace.end(), steps.begin(), steps.end() );
    const std::vector< Failure > fails = o.fails;       // record() replays and reuses the outcome objects
    for ( auto& f : fails )
        record( f, trace, ( std::uint64_t( trace.size() ) << 32 ) | ( std::uint64_t( pdu_size ) << 16 ) | std::uint64_t( state_no ) );
}

void evaluate( State& st, int state_no, std::size_t out_given, const Bytes& pdu )
{
    if ( cut ) return;
    if ( ++since_check >= 2048 )
    {
        since_check = 0;
        if ( args->expired() ) { cut = true; return; }
    }
    if ( total_asan_reports > 50 && !stderr_closed ) { stderr_closed = 1; const int fd = open( "/dev/null", O_WRONLY ); if ( fd >= 0 ) dup2( fd, 2 ); }
    // an opcode whose handling produced hundreds of ASan reports is not fed any further (report printing dominates)
    if ( asan_reports_by_opcode[ pdu[ 0 ] ] >= asan_flood_cap ) { ++skipped_after_asan_flood; return; }

    w.regs.load( st.image.data() );
    call_and_check( oc, 0, out_given, pdu.data(), pdu.size() );
    ++rep.evaluations; ++rep.traces_validated; ++st.evaluations;
    if ( class_keys.insert( oc.cls_key() ).second ) rep.cls( oc.cls() );

    if ( !oc.fails.empty() )
    {
        note_failures( oc, st, state_no, { mc::fmt( "eval c0 out=%zu ", out_given ) + mc::hex( pdu ) }, pdu.size() );
        return;     // never continue from a state reached through a failed oracle
    }

    if ( rep.samples.size() < 6 && ( rep.evaluations % 9973 ) == 17 )
        rep.sample( st.name + mc::fmt( " out=%zu: ", out_given ) + mc::hex( pdu ) + " -> " + oc.response_hex() + " [" + oc.cls() + "]" );

    // depth 2: a successful Prepare Write is executed from the state it leads to
    if ( pdu[ 0 ] == 0x16 && oc.rsp == ( 0x200 | 0x17 ) )
    {
        static const Bytes exec{ 0x18, 0x01 };
        call_and_check( oe, 0, out_given, exec.data(), exec.size() );
        ++rep.evaluations; ++rep.traces_validated; ++prepare_execute_evaluations;
        if ( class_keys_after_prepare.insert( oe.cls_key() ).second ) rep.cls( "after-prepare:" + oe.cls() );
        if ( !oe.fails.empty() )
            note_failures( oe, st, state_no, { mc::fmt( "eval c0 out=%zu ", out_given ) + mc::hex( pdu ), mc::fmt( "eval c0 out=%zu ", out_given ) + mc::hex( exec ) }, pdu.size() );
    }
}

// state preparation -------------------------------------------------------------------------------------------------
std::vector< std::string > dropped_states;

// The requests that prepare a state are judged like every other call (512 byte output buffer).  A state whose
// preparation violates an oracle is reported (trace = the requests so far, the failing one as `eval`) and not explored.
struct StateBuilder
{
    State   st;
    Outcome o;
    bool    broken = false;
    explicit StateBuilder( const std::string& name ) { st.name = name; w.init(); }

    // true = no oracle failed
    bool judged( int con_no, const Bytes& pdu )
    {
        call_and_check( o, con_no, 512, pdu.data(), pdu.size() );
        ++rep.evaluations; ++rep.traces_validated; ++preparation_evaluations;
        if ( o.fails.empty() ) return true;

        std::vector< std::string > trace = st.prep;
        trace.push_back( mc::fmt( "eval c%d out=512 ", con_no ) + mc::hex( pdu ) );
        const std::vector< Failure > fails = o.fails;
        for ( auto& f : fails )
            record( f, trace, ( std::uint64_t( trace.size() ) << 32 ) | ( std::uint64_t( pdu.size() ) << 16 ) | 0xFFFFu );
        return false;
    }

    void request( int con_no, const Bytes& pdu )
    {
        if ( broken ) return;
        if ( !judged( con_no, pdu ) ) { broken = true; return; }
        st.prep.push_back( mc::fmt( "prep c%d ", con_no ) + mc::hex( pdu ) );
    }

    // runs the request, keeps it only if the response starts with `expect`
    bool request_if( int con_no, const Bytes& pdu, std::uint8_t expect )
    {
        if ( broken ) return false;
        std::vector< std::uint8_t > keep( w.regs.size() );
        w.regs.save( keep.data() );
        if ( judged( con_no, pdu ) && o.out_size && o.out[ 0 ] == expect )
        {
            st.prep.push_back( mc::fmt( "prep c%d ", con_no ) + mc::hex( pdu ) );
            return true;
        }
        w.regs.load( keep.data() );
        return false;
    }

    void encrypt( int con_no )
    {
        st.prep.push_back( mc::fmt( "enc c%d", con_no ) );
        w.con[ con_no ]->is_encrypted( true );
    }

    void set_all_cccds()
    {
        for ( auto& a : attrs ) if ( a.kind == "cccd" && a.handle ) request( 0, P( 0x12 ).h( a.handle ).h( 3 ).b );
    }

    void done()
    {
        if ( broken ) { dropped_states.push_back( st.name ); return; }
        st.image.resize( w.regs.size() );
        w.regs.save( st.image.data() );
        st.negotiated = w.con[ 0 ]->negotiated_mtu();
        states.push_back( st );
    }
};

int prepare_write_handle = 0;

void build_states()
{
    { StateBuilder b( "fresh" ); b.done(); }
    { StateBuilder b( "mtu-23" );    b.request( 0, P( 0x02 ).h( 23 ).b ); b.done(); }
    { StateBuilder b( "mtu-24" );    b.request( 0, P( 0x02 ).h( 24 ).b ); b.done(); }
    if ( server_mtu > 24 )
    { StateBuilder b( "mtu-max" );   b.request( 0, P( 0x02 ).h( int( server_mtu ) ).b ); b.done(); }
    { StateBuilder b( "mtu-ffff" );  b.request( 0, P( 0x02 ).h( 0xFFFF ).b ); b.done(); }

    bool has_cccd = false;
    for ( auto& a : attrs ) has_cccd = has_cccd || a.kind == "cccd";
    if ( has_cccd ) { StateBuilder b( "cccd-set" ); b.set_all_cccds(); b.done(); }

#ifdef C01_HAS_ENCRYPTION
    { StateBuilder b( "encrypted" ); b.encrypt( 0 ); b.done(); }
    { StateBuilder b( "encrypted-cccd-set" ); b.encrypt( 0 ); b.set_all_cccds(); b.done(); }
#endif

    if ( qprobe::has_queue )
    {
        // first attribute that accepts a Prepare Write
        {
            StateBuilder b( "prepared-1" );
            for ( auto& a : attrs )
                if ( a.kind.rfind( "value-", 0 ) == 0 && a.handle && b.request_if( 0, P( 0x16 ).h( a.handle ).h( 0 ).o( 0xAA ).b, 0x17 ) )
                { prepare_write_handle = a.handle; break; }
            if ( prepare_write_handle ) b.done();
        }
        if ( prepare_write_handle )
        {
            {
                StateBuilder b( "queue-exhausted" );
                for ( int n : { 18, 8, 4, 2, 1, 0 } )
                    for ( int guard = 0; guard != 400 && b.request_if( 0, P( 0x16 ).h( prepare_write_handle ).h( 0 ).f( n, 1 ).b, 0x17 ); ++guard )
                        ;
                b.done();
            }
            {
                StateBuilder b( "queue-held-by-other" );
                b.request( 1, P( 0x16 ).h( prepare_write_handle ).h( 0 ).o( 0xBB ).b );
                b.done();
            }
            if ( has_cccd )
            {
                StateBuilder b( "cccd-set-prepared-1" );
                b.set_all_cccds();
                b.request( 0, P( 0x16 ).h( prepare_write_handle ).h( 0 ).o( 0xAA ).b );
                b.done();
            }
        }
    }
}

std::vector< std::size_t > sweep_lengths( bool thorough )
{
    std::vector< std::size_t > r;
    for ( std::size_t n = 1; n <= server_mtu; ++n )
        if ( thorough || server_mtu <= 65 || n <= 40 || n + 6 >= server_mtu || n % 8 == 0 )
            r.push_back( n );
    return r;
}

// mc::Guard runs its handler on an alternate signal stack; leaving that stack with siglongjmp makes ASan re-read
// /proc/self/maps on every crash (~1 ms).  ATT handling is not recursive, so the handler can live on the normal stack.
void install_guard()
{
    mc::Guard::install();
    struct sigaction sa; memset( &sa, 0, sizeof sa );
    sa.sa_handler = &mc::Guard::handler; sa.sa_flags = SA_NODEFER;
    for ( int sig : { SIGSEGV, SIGBUS, SIGFPE, SIGABRT, SIGILL } ) sigaction( sig, &sa, nullptr );
}

} // namespace

int main( int argc, char** argv )
{
    mc::Args a = mc::parse_args( argc, argv );
    args = &a;
    rep.property = "C01";
    rep.unit     = a.opt.count( "unit" ) ? a.opt[ "unit" ] : std::string( "C01_att_input-" ) + cfg_name;
    install_guard();
    __asan_set_error_report_callback( &asan_report_callback );

    discover_attributes();

    if ( !a.replay.empty() )
    {
        const mc::ReplayFile rf = mc::read_replay( a.replay );
        printf( "replaying %zu steps on unit %s (%s)\n", rf.steps.size(), rep.unit.c_str(), cfg_name );
        for ( auto& f : run_trace( rf.steps, true ) )
            if ( f.sig == rf.sig ) { printf( "REPRODUCED %s: %s\n", f.sig.c_str(), f.detail.c_str() ); return 1; }
        printf( "not reproduced\n" );
        return 0;
    }

    build_alphabets();
    build_states();

    const std::vector< std::size_t > lens = sweep_lengths( a.thorough() );
    std::vector< Bytes > natural, bases;
    natural_pdus( natural );
    sweep_bases( bases, a.thorough() );

    std::size_t contexts_done = 0, contexts = 0;
    Bytes pdu;
    // simplest first: natural PDUs in every context, then the length sweeps
    for ( int pass = 0; pass != 2; ++pass )
        for ( std::size_t s = 0; s != states.size(); ++s )
        {
            State& st = states[ s ];
            const std::size_t outs[ 3 ] = { st.negotiated, st.negotiated + 7, 512 };
            for ( std::size_t out_given : outs )
            {
                ++contexts;
                if ( cut ) continue;
                if ( pass == 0 )
                    for ( auto& p : natural ) evaluate( st, int( s ), out_given, p );
                else if ( a.thorough() || out_given != st.negotiated + 7 )      // quick: the sweep skips the middle buffer size
                    for ( auto& b : bases )
                        for ( std::size_t n : lens )
                            for ( int pad = 0; pad != 3; ++pad )
                            {
                                if ( n <= b.size() && pad ) continue;       // truncations do not depend on the pad pattern
                                resize_pdu( pdu, b, n, pad );
                                evaluate( st, int( s ), out_given, pdu );
                            }
                if ( !cut ) ++contexts_done;
            }
        }

    for ( auto& s : states ) { rep.cls( "state:" + s.name ); rep.counters[ "evaluations in state " + s.name ] = s.evaluations; }
    rep.states      = states.size();
    rep.transitions = rep.evaluations;
    rep.exhaustive  = !cut && !skipped_after_asan_flood;
    if ( skipped_after_asan_flood )
        rep.notes[ "skipped" ] = mc::fmt( "%llu PDUs not evaluated: their opcode had already produced 300 ASan reports", (unsigned long long)skipped_after_asan_flood );
    rep.counters[ "attributes" ]          = attrs.size();
    rep.counters[ "natural pdus" ]        = natural.size();
    rep.counters[ "sweep base pdus" ]     = bases.size();
    rep.counters[ "sweep lengths" ]       = lens.size();
    rep.counters[ "contexts" ]            = contexts;
    rep.counters[ "contexts completed" ]  = contexts_done;
    rep.counters[ "asan reports" ]        = total_asan_reports;
    rep.counters[ "evaluations prepare+execute" ] = prepare_execute_evaluations;
    rep.counters[ "evaluations state preparation" ] = preparation_evaluations;
    if ( !dropped_states.empty() )
    {
        std::string names;
        for ( auto& n : dropped_states ) names += n + " ";
        rep.notes[ "states not explored (their preparation violated an oracle)" ] = names;
        rep.exhaustive = false;
    }
    rep.notes[ "configuration" ] = cfg_name;
    rep.notes[ "bound" ] = mc::fmt( "%zu states x 3 output sizes x (%zu natural PDUs + %zu base PDUs x %zu lengths x <=3 pads); server MTU %zu",
        states.size(), natural.size(), bases.size(), lens.size(), server_mtu );
    {
        std::string names;
        for ( auto& s : states ) names += s.name + mc::fmt( "(%zu requests, MTU %zu) ", s.prep.size(), s.negotiated );
        rep.notes[ "states" ] = names;
    }
    if ( cut ) rep.notes[ "cut" ] = mc::fmt( "deadline hit: %zu of %zu contexts (pass x state x output size) completed", contexts_done, contexts );

    for ( auto& kv : found )
    {
        mc::Violation v;
        v.sig = kv.first; v.detail = std::string( cfg_name ) + ": " + kv.second.detail; v.trace = kv.second.trace; v.count = kv.second.count;
        rep.violations[ kv.first ] = v;
    }
    rep.write( a );
    return 0;
}
