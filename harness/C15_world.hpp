// World shared by C15 (reliable / ordered / exactly-once delivery), C16 (packet counters) and C17 (MIC failures).
//
// DUT        : the real bluetoe::link_layer::ll_data_pdu_buffer< TX, RX, Radio > with a minimal plain-old-data Radio
//              (lock_guard, increment_*_packet_counter counting into members), default max_rx_size / max_tx_size (29).
// driver     : one connection event exactly as nrf52_radio_base drives the buffer:
//                schedule_connection_event : receive_buffer_ = allocate_receive_buffer() or the 3 byte fallback
//                radio_interrupt_handler   : no anchor -> nothing is called;
//                                            fallback buffer or CRC error -> next_transmit();
//                                            valid PDU -> received();  CRC ok, MIC bad -> acknowledge();
//                                            the more-data bit of the answer is cleared in place (issue #75 hack)
//              ( C15_isr.hpp replaces this transcription by the real nrf52_radio_base with a scripted fake Hardware )
// reference  : an independent central (SN / NESN bits, numbered payloads, own packet counters), the list of PDUs the
//              peripheral acknowledged (what the upper layer has to see), bookkeeping of committed PDUs.
//
// The oracles are selected at compile time with -DORACLE=15|16|17; a failed oracle of one of the other two properties
// only prunes the state (the reference would be out of step) and is counted, so every property reports its own
// signatures only.
#ifndef VERIF_C15_WORLD_HPP
#define VERIF_C15_WORLD_HPP

#include "../mc/mc.hpp"
#include <bluetoe/ll_data_pdu_buffer.hpp>

#ifndef ORACLE
#define ORACLE 15
#endif
#ifndef FORCED
#define FORCED 0
#endif
#ifndef DLE
#define DLE 0       // 1: data length extension in the receive direction: max_rx_size( 70 ), central payloads of 31, 32, 33 and 64 octets
#endif
#ifndef MODE
#define MODE 0      // 0: both directions; 1: receive direction only ( nothing is committed ); 2: transmit direction only ( the central sends empty PDUs )
#endif

namespace c15 {

using bluetoe::link_layer::read_buffer;
using bluetoe::link_layer::write_buffer;

#ifndef IDMOD
#define IDMOD 4
#endif
constexpr unsigned IDM        = IDMOD;  // payload ids and packet counters are kept modulo IDM ( <= 16 ): finite state space
constexpr unsigned max_pl     = 27;     // max payload with the default max_rx_size / max_tx_size of 29
constexpr std::uint8_t tx_tag = 0x40;   // first payload byte of PDU k committed by the peripheral : 0x40 | k
constexpr std::uint8_t rx_tag = 0x80;   // first payload byte of data PDU k of the central         : 0x80 | k
constexpr std::uint8_t mic_garbage = 0xEE, crc_garbage = 0xEC, llid0_payload = 0xC0;
constexpr std::uint8_t filler = 0xA5;   // payload = one tag byte + filler: stale bytes in the rings stay few in kind

inline void fill( std::uint8_t* body, std::uint8_t first, unsigned len ) { if ( len ) { memset( body, filler, len ); body[ 0 ] = first; } }
inline bool filled( const std::uint8_t* body, unsigned len ) { for ( unsigned i = 1; i < len; ++i ) if ( body[ i ] != filler ) return false; return true; }

// The harness owns Radio::lock_guard.  When armed, the constructor of the next guard runs a hook first: "the radio
// interrupt arrives while the main context is about to take the lock" ( while a guard lives no interrupt runs ).
struct LockHook { void ( *fn )( void* ) = nullptr; void* ctx = nullptr; bool armed = false; };
inline LockHook& lock_hook() { static LockHook h; return h; }
struct hooked_lock_guard
{
    hooked_lock_guard()
    {
        LockHook& h = lock_hook();
        if ( h.armed ) { h.armed = false; h.fn( h.ctx ); }
    }
};

template < std::size_t TX, std::size_t RX >
struct Radio : bluetoe::link_layer::ll_data_pdu_buffer< TX, RX, Radio< TX, RX > >
{
    using base = bluetoe::link_layer::ll_data_pdu_buffer< TX, RX, Radio< TX, RX > >;
    using lock_guard = hooked_lock_guard;

    std::uint8_t rx_cnt, tx_cnt;    // packet counters ( mod IDM ), what a CCM nonce would be built from
    std::uint8_t empty_receive[ 3 ]; // nrf52_radio_base::empty_receive_

    Radio() : rx_cnt( 0 ), tx_cnt( 0 ) { empty_receive[ 0 ] = empty_receive[ 1 ] = empty_receive[ 2 ] = 0; }

    void increment_receive_packet_counter()  { rx_cnt = std::uint8_t( ( rx_cnt + 1 ) % IDM ); }
    void increment_transmit_packet_counter() { tx_cnt = std::uint8_t( ( tx_cnt + 1 ) % IDM ); }

    // ---- driver: the buffer's protected "interface to the radio hardware", used like nrf52_radio_base uses it -------------
    static constexpr bool real_isr = false;
    static constexpr std::size_t tx_size = TX, rx_size = RX;
    static const char* dut_name() { return "ll_data_pdu_buffer driven by a transcription of the nrf52 ISR decision table"; }
    static void extra_regions( mc::Regions& ) {}
    template < class P > static void place( P& p ) { p.construct(); }

    bool can_receive() const { return this->allocate_receive_buffer().size != 0; }

    // schedule_connection_event(): receive_buffer_ = receive_buffer(); returns true, if that is the 3 byte fallback
    bool event_begin( read_buffer& rb )
    {
        rb = this->allocate_receive_buffer();
        if ( !rb.empty() ) return false;
        rb = read_buffer{ &empty_receive[ 0 ], sizeof empty_receive };
        return true;
    }

    // radio_interrupt_handler(), state evt_wait_connect; false: nothing is transmitted
    bool event_radio( int fault, bool fallback, read_buffer rb, write_buffer& trans )
    {
        const bool valid_anchor = fault != 1, valid_crc = fault == 0 || fault == 3, valid_pdu = fault == 0;
        if ( !valid_anchor ) return false;
        trans = ( fallback || !valid_crc ) ? this->next_transmit()
              : ( valid_pdu ? this->received( rb ) : this->acknowledge( rb ) );
        if ( trans.buffer == nullptr || trans.size < 2 ) return true;
        const_cast< std::uint8_t* >( trans.buffer )[ 0 ] = trans.buffer[ 0 ] & ~0x10;   // "Issue: #75 More Data not working"
        return true;
    }

    bool event_end( bool ) { return true; }
};

enum { C_DATA = 0, C_EMPTY = 1, C_RETX = 2, C_LLID0 = 3, NC = 4 };  // C_LLID0: new non-empty PDU with the reserved LLID 0
enum { FT_OK = 0, FT_LOST = 1, FT_CRC = 2, FT_MIC = 3 };
enum { U_NONE = 0, U_COMMIT1 = 1, U_COMMITMAX = 2, U_CONSUME = 3, U_CONSUME_LATE = 4, U_RESET = 5,
       U_COMMIT1_IRQ = 6, U_CONSUME_IRQ = 7, NU = 8 };  // U_RESET: new connection; *_IRQ: the radio interrupt of this event arrives when the call takes its lock
enum { P_LOST, P_FULL, P_CRC, P_MIC, P_RECEIVED };

inline const char* path_name( int p )
{
    static const char* n[] = { "lost", "rx-buffer-full", "crc-error", "mic-failure", "received" };
    return n[ p ];
}

struct Ref
{
    // independent central
    std::uint8_t c_sn, c_nesn;                  // transmitSeqNum / nextExpectedSeqNum of the central
    std::uint8_t c_has_last, c_last_data, c_last_id, c_last_sn, c_last_acked;
    std::uint8_t c_last_llid0;                  // the last PDU is a non-empty one with the reserved LLID 0
    std::uint8_t c_next_id;                     // id of the next new data PDU
    std::uint8_t c_tx_cnt, c_rx_cnt;            // the central's CCM packet counters ( mod IDM )
    // what the peripheral told the central
    std::uint8_t r_nesn;                        // NESN of the last PDU the DUT handed to the radio
    std::uint8_t up_q[ 32 ], up_n;              // data PDUs the DUT acknowledged, not yet handed to the upper layer
    std::uint8_t up_last;                       // id handed up last ( 0xff: none )
    // PDUs committed by the upper layer
    std::uint8_t commit_id;                     // id of the next PDU to commit
    std::uint8_t id_base_tx;                    // id of the first PDU committed in this connection ( packet counter 0 )
    std::uint8_t llid0_sent;                    // new PDUs with LLID 0 sent so far
    std::uint8_t resets;                        // connections started on this object after the first one
    std::uint8_t n_in_ring;                     // committed, not yet removed from the transmit ring ( as observed )
    std::uint8_t n_not_at_central;              // committed, not yet accepted by the central
    std::uint8_t tx_sz[ 32 ];                   // payload sizes of the PDUs not yet accepted by the central, oldest first
};

template < class Dut >
struct World
{
    using dut_t  = Dut;
    using layout = typename dut_t::layout;

    mc::Placed< dut_t > dut;
    Ref ref;

    // statistics only, not part of the state
    int  max_resets = 1;    // how often a path may start a new connection ( reset_pdu_buffer() ) on the same buffer object
    int  max_llid0  = 1;
    bool with_irq   = true; // upper layer calls that are interrupted by the radio at their lock acquisition    // how many non-empty PDUs with the reserved LLID 0 the central may send on a path
    bool want_obs = false, in_drain = false;     // observations as text only for replays and samples
    bool class_seen[ 4096 ] = {};
    template < class F > void note_class( mc::Ctx& c, int code, F&& name )
    {
        if ( in_drain || class_seen[ code ] ) return;   // the string is only built for the first observation of a class
        class_seen[ code ] = true;
        c.cls( name() );
    }
    std::uint64_t foreign[ 3 ] = { 0, 0, 0 };
    std::uint64_t stall_seen = 0, drains = 0;
    mc::Regions all; std::vector< std::uint8_t > keep;     // scratch of drain()

    void init()
    {
        dut_t::place( dut );
        apply_dle();
        memset( &ref, 0, sizeof ref );
        ref.up_last = 0xff;
    }

    void regions( mc::Regions& r ) { r.add( dut.raw, sizeof dut.raw ); dut_t::extra_regions( r ); r.add( ref ); }

    // ---------------------------------------------------------------------------------------------------------------
    // events
    struct In { int cact, fcp, fpc, uact; };

    static In decode( int ev )
    {
        In i;
        i.uact = ev % NU; ev /= NU;
        i.fpc  = ev % 2;  ev /= 2;
        i.fcp  = ev % 4;  ev /= 4;
        i.cact = ev;
        return i;
    }

    int num_events() const { return NC * 4 * 2 * NU; }

    std::string describe( int ev ) const
    {
        static const char* ca[] = { "central:new-data", "central:new-empty", "central:retransmit-last", "central:new-data-with-LLID-0" };
        static const char* fc[] = { "c->p:ok", "c->p:lost", "c->p:crc-error", "c->p:mic-error" };
        static const char* fp[] = { "p->c:ok", "p->c:lost" };
        static const char* ua[] = { "upper:none", "upper:commit(1)", "upper:commit(27)", "upper:consume", "upper:consume-after-schedule", "upper:new-connection(reset_pdu_buffer)",
                                    "upper:commit(1)-interrupted-at-lock", "upper:consume-interrupted-at-lock" };
        const In i = decode( ev );
        return std::string( ua[ i.uact ] ) + " " + ca[ i.cact ] + " " + fc[ i.fcp ] + " " + fp[ i.fpc ];
    }

    // ---------------------------------------------------------------------------------------------------------------
    // oracle bookkeeping: owner = 15, 16, 17
    void viol( mc::Ctx& c, int owner, const std::string& sig, const std::string& detail )
    {
        if ( owner == ORACLE ) { c.fail( sig, detail ); return; }
        ++foreign[ owner - 15 ];
        c.cls( mc::fmt( "pruned:oracle-of-C%d-failed", owner ) );
        // a counter mismatch leaves the delivery reference intact; everything else puts it out of step
        if ( owner != 16 ) c.prune = true;
    }

#if DLE
    static unsigned central_len( unsigned id ) { static const unsigned l[ 4 ] = { 32, 31, 64, 33 }; return l[ id & 3 ]; }   // 32 and 64: low 5 bits of the length are 0
    void apply_dle() { dut->max_rx_size( 70 ); }
#else
    static unsigned central_len( unsigned id ) { return ( id & 1 ) ? 1u : max_pl; }
    void apply_dle() {}
#endif
    static_assert( IDM <= 8, "bit 3 of the payload tag is the connection generation" );
    // payload tag of PDU id in the current connection: ids restart with every connection, bit 3 tells the connections apart
    unsigned tag( unsigned id ) const { return id | ( ( ref.resets & 1 ) ? 8u : 0u ); }

    // ---------------------------------------------------------------------------------------------------------------
    // observation of the transmit ring: how many PDUs left it since the last look ( -1: head is not explainable )
    int tx_pops()
    {
        const read_buffer h = dut->transmit_buffer_.next_end();
        const unsigned pop_id  = ( ref.commit_id + IDM - ref.n_in_ring ) % IDM;
        if ( h.size == 0 )
            return ref.n_in_ring <= 1 ? ref.n_in_ring : -1;

        const unsigned len = h.buffer[ 1 ];
        if ( len == 0 || ( h.buffer[ 2 ] & 0xf0 ) != tx_tag ) return -1;
        const unsigned id = h.buffer[ 2 ] & 0x0f;
        if ( ref.n_in_ring >= 1 && id == tag( pop_id ) ) return 0;
        if ( ref.n_in_ring >= 2 && id == tag( ( pop_id + 1 ) % IDM ) ) return 1;
        return -1;
    }

    // content of the receive ring, without changing it
    struct RxItem { std::uint8_t id, len, ok; };
    int rx_ring( RxItem* out, int cap )
    {
        unsigned char keep[ sizeof dut.raw ];
        memcpy( keep, dut.raw, sizeof keep );
        int n = 0;
        for ( ; n != cap; ++n )
        {
            const write_buffer b = dut->next_received();
            if ( b.size == 0 ) break;
            out[ n ] = check_rx_pdu( b );
            dut->free_received();
        }
        memcpy( dut.raw, keep, sizeof keep );
        return n;
    }

    static RxItem check_rx_pdu( const write_buffer& b )
    {
        RxItem it; it.id = 0xff; it.len = 0; it.ok = 0;
        if ( b.size < 2 ) return it;
        const std::uint16_t h = layout::header( b );
        it.len = std::uint8_t( h >> 8 );
        if ( it.len == 0 || b.size < 2u + it.len ) return it;
        const std::uint8_t* body = layout::body( b ).first;
        if ( ( body[ 0 ] & 0xf0 ) != rx_tag ) return it;
        it.id = body[ 0 ] & 0x0f;
        bool ok = ( h & 3 ) == 2 && it.len == central_len( it.id );
        ok = ok && filled( body, it.len );
        it.ok = ok;
        return it;
    }

    // the receive ring has to hold exactly the acknowledged, not yet consumed PDUs
    bool check_rx_ring( mc::Ctx& c, const char* when, int owner_if_extra )
    {
        RxItem it[ 40 ];
        const int n = rx_ring( it, 40 );
        if ( n < ref.up_n )
        {
            viol( c, 15, mc::fmt( "rx-ring:acknowledged-pdu-missing:%s", when ),
                mc::fmt( "%d PDUs were acknowledged to the central and not yet consumed, the receive ring holds %d", ref.up_n, n ) );
            return false;
        }
        for ( int i = 0; i != ref.up_n; ++i )
            if ( !it[ i ].ok || it[ i ].id != ref.up_q[ i ] )
            {
                viol( c, 15, mc::fmt( "rx-ring:wrong-pdu:%s", when ),
                    mc::fmt( "receive ring entry %d is id %d (intact %d), acknowledged sequence has id %d there", i, it[ i ].id, it[ i ].ok, ref.up_q[ i ] ) );
                return false;
            }
        if ( n > ref.up_n )
        {
            viol( c, owner_if_extra, mc::fmt( "rx-ring:unacknowledged-pdu-stored:%s", when ),
                mc::fmt( "receive ring holds %d PDUs, only %d were acknowledged; first extra has id %d (intact %d)", n, ref.up_n, it[ ref.up_n ].id, it[ ref.up_n ].ok ) );
            return false;
        }
        return true;
    }

    // ---------------------------------------------------------------------------------------------------------------
    // placement: transmit PDUs live in the first TransmitSize bytes of the raw buffer, receive PDUs in the ReceiveSize bytes behind
    bool in_tx_memory( const std::uint8_t* p, std::size_t n ) { const std::uint8_t* b = dut->raw_pdu_buffer(); return p >= b && p + n <= b + dut_t::tx_size; }
    bool in_rx_memory( const std::uint8_t* p, std::size_t n ) { const std::uint8_t* b = dut->raw_pdu_buffer() + dut_t::tx_size; return p >= b && p + n <= b + dut_t::rx_size; }

    // ---------------------------------------------------------------------------------------------------------------
    // upper layer
    bool can_commit() { return ref.n_not_at_central < sizeof ref.tx_sz && dut->allocate_transmit_buffer().size != 0; }

    // the interrupted calls: the rest of the connection event runs inside the constructor of the call's lock_guard
    struct Irq { World* w; const In* in; mc::Ctx* c; read_buffer rb; bool full; };
    static void irq_entry( void* p ) { Irq* q = static_cast< Irq* >( p ); q->w->radio_part( *q->in, *q->c, q->rb, q->full ); }
    void arm( Irq& q ) { LockHook& h = lock_hook(); h.fn = &irq_entry; h.ctx = &q; h.armed = true; }
    // true: the call took no lock at all, the interrupt is still pending
    bool disarm() { LockHook& h = lock_hook(); const bool pending = h.armed; h.armed = false; return pending; }

    void do_commit( unsigned len, mc::Ctx& c, Irq* irq = nullptr )
    {
        const read_buffer b = dut->allocate_transmit_buffer();
        if ( !in_tx_memory( b.buffer, b.size ) )
        {
            viol( c, 15, "tx-buffer:outside-transmit-memory", mc::fmt( "allocate_transmit_buffer() returned %zu bytes at offset %td of the raw buffer (transmit memory is 0..%zu)", b.size, b.buffer - dut->raw_pdu_buffer(), dut_t::tx_size ) );
            return;
        }
        const unsigned id = ref.commit_id;
        layout::header( b, std::uint16_t( 0x02 | ( len << 8 ) ) );
        fill( layout::body( b ).first, tx_tag | tag( id ), len );
        if ( irq ) arm( *irq );
        dut->commit_transmit_buffer( b );
        if ( irq && disarm() )
        {
            viol( c, 15, "lock:commit_transmit_buffer-takes-no-lock", "commit_transmit_buffer() changed the transmit ring without a lock_guard" );
            return;
        }
        if ( !c.fails.empty() || c.prune ) return;
        ref.tx_sz[ ref.n_not_at_central ] = std::uint8_t( len );
        ref.commit_id = std::uint8_t( ( id + 1 ) % IDM );
        ++ref.n_in_ring; ++ref.n_not_at_central;
        if ( tx_pops() != 0 )
            viol( c, 15, "tx-ring:head-changed:commit", "after commit_transmit_buffer() the oldest PDU of the transmit ring is not the oldest unacknowledged one" );
        if ( dut->pending_outgoing_data_available() != ( ref.n_in_ring != 0 ) )
            viol( c, 15, "tx-ring:pending-flag-wrong:commit", "pending_outgoing_data_available() contradicts the number of unacknowledged PDUs" );
    }

    // a new connection on the same object: link_layer calls reset_pdu_buffer(), the encryption counters restart, the
    // central of the new connection starts with SN = NESN = 0; nothing of the old connection may show up again
    void do_reset( mc::Ctx& c )
    {
        // while there is no connection the link layer uses raw_pdu_buffer() ( documented: ll_data_pdu_buffer::size bytes ) for
        // advertising; afterwards reset_pdu_buffer() starts the connection and the encryption counters restart
        memset( dut->raw_pdu_buffer(), 0xAD, dut_t::size );
        dut->reset_pdu_buffer();
        apply_dle();        // reset_pdu_buffer() falls back to 29, the new connection negotiates the length again
        dut->rx_cnt = 0; dut->tx_cnt = 0;
        Ref& r = ref;
        r.c_sn = r.c_nesn = 0; r.c_has_last = r.c_last_data = r.c_last_id = r.c_last_sn = r.c_last_acked = r.c_last_llid0 = 0;
        r.c_tx_cnt = r.c_rx_cnt = 0;
        r.r_nesn = 0;
        memset( r.up_q, 0, sizeof r.up_q ); r.up_n = 0; r.up_last = 0xff;
        r.n_in_ring = 0; r.n_not_at_central = 0; memset( r.tx_sz, 0, sizeof r.tx_sz );
        r.commit_id = 0; r.c_next_id = 0; r.id_base_tx = 0;
        ++r.resets;
        if ( tx_pops() != 0 || dut->pending_outgoing_data_available() )
            viol( c, 15, "tx-ring:not-empty-after-connection-reset", "after reset_pdu_buffer() the transmit ring still holds a PDU of the old connection" );
        check_rx_ring( c, "connection-reset", 15 );
        note_class( c, 3010, []{ return std::string( "upper:new-connection" ); } );
    }

    bool can_consume() { return ref.up_n != 0 || dut->next_received().size != 0; }

    void do_consume( mc::Ctx& c, const char* when, Irq* irq = nullptr )
    {
        if ( irq ) arm( *irq );
        const write_buffer b = dut->next_received();
        if ( irq && disarm() )
        {
            viol( c, 15, "lock:next_received-takes-no-lock", "next_received() read the receive ring without a lock_guard" );
            return;
        }
        if ( !c.fails.empty() || c.prune ) return;
        if ( b.size == 0 )
        {
            viol( c, 15, mc::fmt( "upper:acknowledged-pdu-not-delivered:%s", when ), "next_received() is empty although an acknowledged PDU was not handed up yet" );
            return;
        }
        const RxItem it = check_rx_pdu( b );
        if ( ref.up_n == 0 || it.id != ref.up_q[ 0 ] || !it.ok )
        {
            const char* k = !it.ok && it.id == 0xff ? "garbage"
                          : it.id == ref.up_last ? "duplicate"
                          : ref.up_n == 0 ? "never-acknowledged"
                          : !it.ok ? "corrupt" : "out-of-order";
            viol( c, 15, mc::fmt( "upper:delivered-%s:%s", k, when ),
                mc::fmt( "next_received() handed up id %d (intact %d), expected %s", it.id, it.ok, ref.up_n ? mc::fmt( "id %d", ref.up_q[ 0 ] ).c_str() : "nothing" ) );
            return;
        }
        dut->free_received();
        ref.up_last = it.id;
        memmove( ref.up_q, ref.up_q + 1, sizeof ref.up_q - 1 );
        --ref.up_n;
        note_class( c, 3000 + ( when[ 0 ] == 'a' ) + ( when[ 0 ] == 'i' ? 2 : 0 ), [&]{ return mc::fmt( "upper:consumed:%s", when ); } );
    }

    // ---------------------------------------------------------------------------------------------------------------
    bool enabled( const In& i )
    {
        // a conforming central repeats its PDU only while it was not acknowledged; FORCED=1 adds a central that repeats an
        // acknowledged PDU ( old SN together with an up to date NESN )
        if ( !FORCED && i.cact == C_RETX && ref.c_last_acked ) return false;
        if ( MODE == 1 && ( i.uact == U_COMMIT1 || i.uact == U_COMMITMAX || i.uact == U_COMMIT1_IRQ ) ) return false;
        if ( !with_irq && ( i.uact == U_COMMIT1_IRQ || i.uact == U_CONSUME_IRQ ) ) return false;
        if ( i.fcp == FT_LOST && ( i.uact == U_COMMIT1_IRQ || i.uact == U_CONSUME_IRQ ) ) return false;  // no interrupt without an anchor
        if ( MODE == 2 && ( i.cact == C_DATA || i.cact == C_LLID0 ) ) return false;
        if ( i.cact == C_LLID0 && ref.llid0_sent >= max_llid0 ) return false;
        if ( i.uact == U_RESET )
        {   // the central of the new connection starts from scratch
            if ( ref.resets >= max_resets || i.cact == C_RETX ) return false;
        }
        else
        if ( i.cact == C_RETX ) { if ( !ref.c_has_last ) return false; }
        else if ( ref.c_has_last && !ref.c_last_acked ) return false;       // a central may only send new data after the ack
        if ( i.fcp == FT_LOST && i.fpc != 0 ) return false;                   // nothing is transmitted without an anchor
        if ( i.fcp == FT_MIC )
        {
            const bool data = i.cact == C_DATA || i.cact == C_LLID0 || ( i.cact == C_RETX && ref.c_last_data );
            if ( !data ) return false;                                       // empty PDUs carry no MIC
            const bool fresh = i.uact == U_RESET;
            const unsigned sn = fresh ? 0 : i.cact == C_RETX ? ref.c_last_sn : ref.c_sn;
            if ( sn == ( fresh ? 0 : ref.r_nesn ) && ORACLE != 17 ) return false;            // MIC failure on a new PDU is the subject of C17
        }
        switch ( i.uact )
        {
        case U_COMMIT1: case U_COMMITMAX: case U_COMMIT1_IRQ: return can_commit();
        case U_CONSUME: case U_CONSUME_LATE: case U_CONSUME_IRQ: return can_consume();
        }
        return true;
    }

    bool apply( int ev, mc::Ctx& c )
    {
        const In i = decode( ev );
        if ( !enabled( i ) ) return false;
        step( i, c );
        return true;
    }

    // one connection event
    void step( const In& in, mc::Ctx& c )
    {
        Ref& r = ref;

        // -- main context before the event is scheduled ( link_layer::end_event ) --------------------------------------
        if ( in.uact == U_COMMIT1 )   do_commit( 1, c );
        if ( in.uact == U_COMMITMAX ) do_commit( max_pl, c );
        if ( in.uact == U_CONSUME )   do_consume( c, "before-schedule" );
        if ( in.uact == U_RESET )     do_reset( c );
        if ( !c.fails.empty() || c.prune ) return;

        // -- schedule_connection_event ------------------------------------------------------------------------------
        read_buffer rb;
        const bool full = dut->event_begin( rb );
        if ( !full && !in_rx_memory( rb.buffer, rb.size ) )
        {
            viol( c, 15, "rx-buffer:outside-receive-memory", mc::fmt( "allocate_receive_buffer() returned %zu bytes at offset %td of the raw buffer (receive memory is %zu..%zu)", rb.size, rb.buffer - dut->raw_pdu_buffer(), dut_t::tx_size, dut_t::tx_size + dut_t::rx_size ) );
            return;
        }

        if ( in.uact == U_CONSUME_LATE ) do_consume( c, "after-schedule" );
        if ( !c.fails.empty() || c.prune ) return;

        // -- the central transmits ------------------------------------------------------------------------------------
        if ( in.cact != C_RETX )
        {
            r.c_has_last = 1; r.c_last_acked = 0; r.c_last_sn = r.c_sn;
            r.c_last_data  = in.cact == C_DATA || in.cact == C_LLID0;
            r.c_last_llid0 = in.cact == C_LLID0;
            // a PDU with LLID 0 is not numbered ( it must never be handed up ): 1 octet payload 0xC0
            if ( r.c_last_llid0 ) { r.c_last_id = 0; ++r.llid0_sent; }
            else if ( r.c_last_data ) { r.c_last_id = r.c_next_id; r.c_next_id = std::uint8_t( ( r.c_next_id + 1 ) % IDM ); }
        }
        Irq irq{ this, &in, &c, rb, full };
        if ( in.uact == U_COMMIT1_IRQ )      do_commit( 1, c, &irq );
        else if ( in.uact == U_CONSUME_IRQ ) do_consume( c, "interrupted-at-lock", &irq );
        else                                 radio_part( in, c, rb, full );
    }

    // the radio's part of a connection event: reception, interrupt handler, answer, what the central makes of it
    void radio_part( const In& in, mc::Ctx& c, read_buffer rb, bool full )
    {
        Ref& r = ref;
        const bool     data = r.c_last_data, llid0 = r.c_last_llid0;
        const unsigned id   = r.c_last_id;
        const unsigned len  = llid0 ? 1 : data ? central_len( id ) : 0;
        const unsigned sn   = r.c_last_sn, nesn = r.c_nesn;
        const bool     forced = in.cact == C_RETX && r.c_last_acked;

        const int path = in.fcp == FT_LOST ? P_LOST : full ? P_FULL : in.fcp == FT_CRC ? P_CRC : in.fcp == FT_MIC ? P_MIC : P_RECEIVED;
        const bool is_new = sn == r.r_nesn;
        const char* kind = llid0 ? ( is_new ? "new-llid0" : "resent-llid0" ) : data ? ( is_new ? "new-data" : "resent-data" ) : ( is_new ? "new-empty" : "resent-empty" );
        const int kindi = ( is_new ? 0 : 1 ) + ( llid0 ? 4 : data ? 0 : 2 );

        // -- what the radio DMA leaves in the receive buffer ---------------------------------------------------------------
        const std::uint8_t h0 = std::uint8_t( ( llid0 ? 0x00 : data ? 0x02 : 0x01 ) | ( sn ? 0x08 : 0 ) | ( nesn ? 0x04 : 0 ) );
        if ( path == P_LOST ) {}
        else if ( !full )
        {
            if ( in.fcp == FT_CRC )
            {   // damaged on air: SN / NESN inverted, garbage body
                rb.buffer[ 0 ] = h0 ^ 0x0c; rb.buffer[ 1 ] = std::uint8_t( len );
                fill( rb.buffer + 2, crc_garbage, len );
            }
            else
            {
                layout::header( rb, std::uint16_t( h0 | ( len << 8 ) ) );
                fill( layout::body( rb ).first, in.fcp == FT_MIC ? mic_garbage : llid0 ? llid0_payload : ( rx_tag | tag( id ) ), len );
            }
        }
        else
        {
            rb.buffer[ 0 ] = h0; rb.buffer[ 1 ] = std::uint8_t( len ); rb.buffer[ 2 ] = 0;
        }

        // -- radio_interrupt_handler, state evt_wait_connect ------------------------------------------------------------
        const unsigned rx_before = dut->rx_cnt, tx_before = dut->tx_cnt;

        write_buffer trans;
        const bool answered = dut->event_radio( in.fcp, full, rb, trans );
        if ( !dut->event_end( answered ) )
        {
            viol( c, 15, mc::fmt( "isr:no-event-reported:%s", path_name( path ) ), "after the radio interrupt neither a timeout nor the end of the connection event is reported to the link layer" );
            return;
        }

        if ( !answered )
        {
            // no anchor: the interrupt handler calls nothing ( evt_timeout_ ); the real nrf52 ISR also stays silent on a CRC error
            if ( path != P_LOST && !( dut_t::real_isr && in.fcp == FT_CRC ) )
            {
                viol( c, 15, mc::fmt( "tx:no-answer:%s", path_name( path ) ), "a PDU with a valid anchor was not answered" );
                return;
            }
            if ( want_obs ) c.obs = mc::fmt( "%s %s, nothing transmitted", kind, path == P_LOST ? "lost" : path_name( path ) );
            if ( dut->rx_cnt != rx_before )
                viol( c, 16, "rx-counter:incremented:nothing-received", "receive packet counter advanced in an event without a valid PDU" );
            if ( dut->tx_cnt != tx_before )
                viol( c, 16, "tx-counter:incremented-without-acknowledge:nothing-received", "transmit packet counter advanced in an event without a valid PDU" );
            if ( tx_pops() != 0 )
                viol( c, 15, "tx-ring:pdu-removed-without-acknowledge:nothing-received", "a PDU left the transmit ring in an event in which nothing was received" );
            if ( !c.fails.empty() || c.prune ) return;
            note_class( c, 3020 + kindi + ( path == P_LOST ? 0 : 10 ), [&]{ return mc::fmt( "%s/%s/no-answer", path == P_LOST ? "lost" : path_name( path ), kind ); } );
            check_rx_ring( c, "no-answer", 15 );
            return;
        }
        if ( path == P_LOST )
        {
            viol( c, 15, "tx:answer-without-anchor", "a PDU was transmitted although nothing was received" );
            return;
        }

        if ( trans.buffer == nullptr || trans.size < 2 )
        {
            viol( c, 15, mc::fmt( "tx:no-pdu-to-transmit:%s", path_name( path ) ), "the buffer returned no PDU for transmission (documented post condition of next_transmit())" );
            return;
        }

        const std::uint16_t th = layout::header( trans );
        const unsigned t_sn = ( th >> 3 ) & 1, t_nesn = ( th >> 2 ) & 1, t_llid = th & 3, t_len = th >> 8;
        const unsigned rx_delta = ( dut->rx_cnt + IDM - rx_before ) % IDM;
        const unsigned tx_delta = ( dut->tx_cnt + IDM - tx_before ) % IDM;
        const unsigned tx_cnt_on_air = dut->tx_cnt;     // configure_final_transmit copies the counter after the buffer call
        const bool toggled = t_nesn != r.r_nesn;
        if ( want_obs )
            c.obs = mc::fmt( "%s, %s%s -> answer SN %u NESN %u (was %u) length %u, rx counter +%u, tx counter +%u", kind, path_name( path ), forced ? " (central repeats an acknowledged PDU)" : "",
                t_sn, t_nesn, r.r_nesn, t_len, rx_delta, tx_delta );

        // -- receive direction: NESN -----------------------------------------------------------------------------------
        bool accepted = false;
        if ( toggled )
        {
            RxItem stored[ 40 ];
            if ( path == P_MIC && rx_ring( stored, 40 ) > ref.up_n )
                viol( c, 17, is_new ? "mic-failed-pdu-stored-and-acknowledged:new-pdu" : "mic-failed-pdu-stored-and-acknowledged:resent-pdu",
                    mc::fmt( "%s PDU with a MIC failure (SN %u, NESN was %u) was put into the receive ring (undecryptable payload goes to the upper layer) and acknowledged", kind, sn, r.r_nesn ) );
            else if ( path == P_MIC )
                viol( c, 17, is_new ? "nesn-advanced-on-mic-failure:new-pdu" : "nesn-changed-on-mic-failure:resent-pdu",
                    mc::fmt( "acknowledge(read_buffer) for a %s PDU (SN %u, NESN was %u) changed NESN to %u: %s", kind, sn, r.r_nesn, t_nesn,
                        is_new ? "the central takes the PDU as delivered, the payload is lost" : "an already acknowledged PDU is requested again" ) );
            else if ( path != P_RECEIVED )
                viol( c, 15, mc::fmt( "nesn-advanced-without-stored-pdu:%s", path_name( path ) ),
                    mc::fmt( "%s PDU of the central, %s: NESN changed %u -> %u", kind, path_name( path ), r.r_nesn, t_nesn ) );
            else if ( !is_new )
                viol( c, 15, "nesn-changed-on-resent-pdu:received", mc::fmt( "resent %s PDU (SN %u, NESN was %u): NESN changed", data ? "data" : "empty", sn, r.r_nesn ) );
            else
                accepted = true;
            r.r_nesn = std::uint8_t( t_nesn );
        }
        if ( !c.fails.empty() || c.prune ) return;

        if ( accepted && data && !llid0 )
        {
            if ( r.up_n == sizeof r.up_q ) { c.prune = true; return; }
            r.up_q[ r.up_n++ ] = std::uint8_t( tag( id ) );
        }

        // -- C16: receive counter -----------------------------------------------------------------------------------------
        {
            const unsigned expect = ( accepted && data ) ? 1 : 0;
            if ( rx_delta != expect )
            {
                const char* m = rx_delta > 1 ? "incremented-more-than-once"
                              : expect ? ( llid0 ? "not-incremented:new-llid0-pdu" : "not-incremented:new-data-pdu" )
                              : path == P_MIC ? "incremented:mic-failure"
                              : path != P_RECEIVED ? "incremented:nothing-received"
                              : !data ? ( is_new ? "incremented:new-empty-pdu" : "incremented:resent-empty-pdu" )
                              : !is_new ? "incremented:resent-data-pdu" : "incremented:pdu-not-acknowledged";
                viol( c, 16, mc::fmt( "rx-counter:%s", m ), mc::fmt( "%s PDU, %s: receive packet counter advanced by %u, expected %u", kind, path_name( path ), rx_delta, expect ) );
            }
            else if ( accepted && data && rx_before != r.c_tx_cnt )
                viol( c, 16, "rx-counter:nonce-mismatch", mc::fmt( "new data PDU was encrypted by the central with packet counter %u, the peripheral's receive counter was %u", r.c_tx_cnt, rx_before ) );
        }

        // -- transmit direction: what left the ring -----------------------------------------------------------------------
        const int pops = tx_pops();
        const unsigned pend_ack = r.n_in_ring - r.n_not_at_central;     // PDUs the central has, the DUT does not know yet
        if ( pops < 0 )
            viol( c, 15, mc::fmt( "tx-ring:head-unexplainable:%s", path_name( path ) ), "after the event the oldest PDU in the transmit ring is neither the oldest unacknowledged PDU nor its successor" );
        else if ( pops == 1 && ( path == P_FULL || path == P_CRC ) )
            viol( c, 15, mc::fmt( "tx-ring:pdu-removed-without-acknowledge:%s", path_name( path ) ), "a PDU left the transmit ring in an event in which no valid header was received" );
        else if ( pops == 1 && pend_ack == 0 )
            viol( c, 15, mc::fmt( "tx-ring:pdu-removed-before-central-had-it:%s", path_name( path ) ),
                mc::fmt( "central sent NESN %u; the oldest PDU left the transmit ring although the central never accepted it", nesn ) );
        if ( !c.fails.empty() || c.prune ) return;
        r.n_in_ring = std::uint8_t( r.n_in_ring - pops );

        if ( tx_delta != unsigned( pops ) )
            viol( c, 16, mc::fmt( "tx-counter:%s:%s", tx_delta > unsigned( pops ) ? ( pend_ack ? "incremented-without-pdu-leaving" : "incremented-without-acknowledge" ) : "not-incremented-on-acknowledge", path_name( path ) ),
                mc::fmt( "transmit packet counter advanced by %u, %d non-empty PDU(s) were acknowledged and left the ring", tx_delta, pops ) );

        // -- the answer of the peripheral ---------------------------------------------------------------------------------
        const bool t_data = t_len != 0;
        unsigned t_id = 0xff; bool t_ok = true, t_old = false;
        if ( t_data )
        {
            const std::uint8_t* body = layout::body( trans ).first;
            t_ok = trans.size >= 2 + t_len && ( body[ 0 ] & 0xf0 ) == tx_tag && t_llid == 2;
            if ( t_ok )
            {
                t_old = ( body[ 0 ] & 8u ) != ( tag( 0 ) & 8u );     // a PDU committed in the previous connection
                t_id = body[ 0 ] & 0x07;
                t_ok = !t_old && t_id < IDM && ( t_len == 1 || t_len == max_pl );
                t_ok = t_ok && filled( body, t_len );
            }
            // the k-th committed PDU has to be encrypted with packet counter k
            if ( t_ok && tx_cnt_on_air != ( t_id + IDM - r.id_base_tx ) % IDM )
                viol( c, 16, "tx-counter:nonce-mismatch", mc::fmt( "PDU number %u (mod %u) of this connection is on air with transmit packet counter %u", ( t_id + IDM - r.id_base_tx ) % IDM, IDM, tx_cnt_on_air ) );
        }
        else if ( t_llid != 1 )
            viol( c, 15, "tx:empty-pdu-with-wrong-llid", mc::fmt( "empty PDU with LLID %u", t_llid ) );

        if ( want_obs ) c.obs += mc::fmt( "; %d PDU(s) left the transmit ring; answer %s", pops, t_data ? mc::fmt( "data #%u len %u%s", t_id, t_len, t_ok ? "" : " (damaged)" ).c_str() : "empty" );
        if ( !c.fails.empty() || c.prune ) return;

        // -- receive ring content -----------------------------------------------------------------------------------------
        if ( !check_rx_ring( c, llid0 && path == P_RECEIVED ? "received-llid0-pdu" : path_name( path ), path == P_MIC ? 17 : 15 ) ) return;

        // -- the central receives -------------------------------------------------------------------------------------
        const char* tk = "answer-lost"; int tki = 0;
        if ( in.fpc == 0 )
        {
            if ( !r.c_last_acked && t_nesn != r.c_last_sn )
            {
                r.c_last_acked = 1; r.c_sn ^= 1;
                if ( r.c_last_data ) r.c_tx_cnt = std::uint8_t( ( r.c_tx_cnt + 1 ) % IDM );
            }
            if ( t_sn == r.c_nesn )
            {
                r.c_nesn ^= 1;
                tk = t_data ? "answer-new-data" : "answer-new-empty"; tki = t_data ? 1 : 2;
                if ( t_data )
                {
                    const unsigned want = ( r.commit_id + IDM - r.n_not_at_central ) % IDM;
                    if ( t_ok && r.n_not_at_central != 0 && t_id == want && t_len != r.tx_sz[ 0 ] ) t_ok = false;
                    if ( !t_ok || r.n_not_at_central == 0 || t_id != want )
                    {
                        const char* k = t_old ? "old-connection" : !t_ok ? "corrupt" : t_id == ( want + IDM - 1 ) % IDM ? "duplicate" : "out-of-order";
                        viol( c, 15, mc::fmt( "central:accepted-%s-pdu", k ),
                            mc::fmt( "the central accepted a new PDU (SN %u) with id %u (intact %d), the next committed PDU is %s", t_sn, t_id, t_ok,
                                r.n_not_at_central ? mc::fmt( "id %u", want ).c_str() : "none" ) );
                        return;
                    }
                    if ( tx_cnt_on_air != r.c_rx_cnt )
                        viol( c, 16, "tx-counter:nonce-mismatch", mc::fmt( "the central decrypts with packet counter %u, the PDU was sent with %u", r.c_rx_cnt, tx_cnt_on_air ) );
                    r.c_rx_cnt = std::uint8_t( ( r.c_rx_cnt + 1 ) % IDM );
                    memmove( r.tx_sz, r.tx_sz + 1, sizeof r.tx_sz - 1 ); r.tx_sz[ sizeof r.tx_sz - 1 ] = 0;
                    --r.n_not_at_central;
                }
            }
            else
                { tk = t_data ? "answer-resent-data" : "answer-resent-empty"; tki = t_data ? 3 : 4; }
        }

        const int code = 4 + ( ( ( ( ( path * 6 + kindi ) * 2 + toggled ) * 2 + ( pops ? 1 : 0 ) ) * 5 + tki ) * 2 + ( r.c_last_acked ? 1 : 0 ) ) * 2 + ( forced ? 1 : 0 );
        note_class( c, code, [&]{ return mc::fmt( "%s/%s%s/%s/%s%s/%s", path_name( path ), kind, forced ? "(forced)" : "", toggled ? "ack" : "nak", pops ? "tx-acknowledged/" : "", tk,
            r.c_last_acked ? "central-got-ack" : "central-unacked" ); } );
    }

    // ---------------------------------------------------------------------------------------------------------------
    // bounded liveness ( C15 ): from every reachable state a fault free continuation in which the upper layer consumes
    // everything delivers all committed PDUs to the central and the central's pending PDU to the upper layer.
    void drain( mc::Ctx& c )
    {
        if ( ORACLE != 15 ) return;
        ++drains;
        if ( all.r.empty() ) { regions( all ); keep.resize( all.size() ); }
        all.save( keep.data() );
        const bool keep_obs = want_obs;
        in_drain = true; want_obs = false;    // step oracles keep their signature: one defect, one signature

        const int budget = 2 * ref.n_in_ring + 8;
        bool done = false, stalled = false;
        for ( int k = 0; k != budget && c.fails.empty() && !c.prune; ++k )
        {
            while ( can_consume() && c.fails.empty() && !c.prune ) do_consume( c, "drain" );
            if ( !c.fails.empty() || c.prune ) break;
            done = ref.n_in_ring == 0 && ref.n_not_at_central == 0 && ( !ref.c_has_last || ref.c_last_acked );
            if ( done ) break;
            if ( !dut->can_receive() )
            {   // an *empty* receive ring that cannot provide a buffer is the ring buffer's problem ( C18 ), not a protocol matter
                stalled = true; ++stall_seen;
                break;
            }
            In i; i.cact = ( ref.c_has_last && !ref.c_last_acked ) ? C_RETX : C_EMPTY; i.fcp = FT_OK; i.fpc = 0; i.uact = U_NONE;
            mc::Ctx cc;
            step( i, cc );
            for ( auto& f : cc.fails ) c.fails.push_back( f );
            if ( cc.prune ) c.prune = true;
        }
        if ( c.fails.empty() && !c.prune && !stalled && !done )
            c.fail( mc::fmt( "drain:not-delivered:%s", ref.n_in_ring || ref.n_not_at_central ? "committed-pdu" : "central-pdu" ),
                mc::fmt( "after %d fault free connection events: %u committed PDUs still in the transmit ring, %u not at the central, central's last PDU acknowledged: %d",
                    budget, ref.n_in_ring, ref.n_not_at_central, ref.c_last_acked ) );
        c.prune = false;
        in_drain = false; want_obs = keep_obs;
        if ( stalled ) note_class( c, 3040, []{ return std::string( "drain:receive-ring-empty-but-no-buffer(C18)" ); } );
        else if ( done ) note_class( c, 3041, []{ return std::string( "drain:all-delivered" ); } );
        all.load( keep.data() );
    }
};

} // namespace c15

#endif
