// C07, second world: the real link layer on top of the server with a shared write queue.
// "... the queue is released on execute, cancel or disconnect": prepare on one connection, lose the connection
// (LL_TERMINATE_IND or supervision timeout), connect again (same or another central), execute.
//
// E1: BFS over the byte image of bluetoe::link_layer::link_layer< server, llw::radio > (+ bound value + reference).
// A central talks to the link layer through the scheduled radio of harness/ll_world.hpp: CONNECT_IND, L2CAP/ATT PDUs,
// LL_TERMINATE_IND, missed connection events.  Reference: the prepared writes of the *current* connection.
#include "../mc/mc.hpp"
#include <bluetoe/server.hpp>
#include <bluetoe/service.hpp>
#include <bluetoe/characteristic.hpp>
#include <bluetoe/write_queue.hpp>
#include "ll_world.hpp"

namespace {

std::uint8_t value[ 8 ];

using server_t = bluetoe::server<
    bluetoe::shared_write_queue< 64 >,
    bluetoe::no_gap_service_for_gatt_servers,
    bluetoe::service<
        bluetoe::service_uuid16< 0x1234 >,
        bluetoe::characteristic< bluetoe::characteristic_uuid16< 0xAA01 >, bluetoe::bind_characteristic_value< decltype( value ), &value > >
    >
>;
using ll_t = bluetoe::link_layer::link_layer< server_t, llw::radio >;

enum { EV_CONNECT_X, EV_CONNECT_Y, EV_PREPARE_A, EV_PREPARE_B, EV_EXECUTE, EV_CANCEL, EV_TERMINATE, EV_SUPERVISION_TIMEOUT, EV_EMPTY_EVENT, EV_ADV_TIMEOUT, EV_COUNT };

struct Elem { std::uint8_t off, len, data[ 2 ]; };
constexpr int MAXE = 12;

struct World
{
    mc::Placed< ll_t > ll;
    struct Ref {
        std::uint8_t connected, central, connections, n_own, n_all, lost_by;    // lost_by: 1 terminate, 2 supervision timeout (how the owner of stale elements went away)
        Elem own[ MAXE ];       // prepared on the current connection
        Elem all[ MAXE ];       // what a queue that is never released on disconnect would hold
    } ref;
    mc::Report* rep = nullptr;
    bool replaying = false;

    void regions( mc::Regions& r ) { r.add( ll.raw, sizeof ll.raw ); r.add( value ); r.add( ref ); }

    void init()
    {
        ll.construct();
        for ( std::size_t i = 0; i != sizeof value; ++i ) value[ i ] = std::uint8_t( 0x10 + i );
        memset( &ref, 0, sizeof ref );
        ll->run();
    }

    int num_events() const { return EV_COUNT; }
    std::string describe( int ev ) const
    {
        static const char* const n[] = { "CONNECT_IND(central X)", "CONNECT_IND(central Y)", "Prepare(offset=0,2 bytes)", "Prepare(offset=1,1 byte)", "Execute(1)", "Execute(0)",
                                         "LL_TERMINATE_IND", "supervision-timeout", "empty-connection-event", "advertising-timeout" };
        return n[ ev ];
    }

    // one ATT request: delivered in one connection event, the response is collected in the next one
    std::vector< std::uint8_t > att( const std::uint8_t* req, std::size_t n )
    {
        ll->sim_l2cap( 4, req, n );
        std::vector< std::uint8_t > rsp;
        for ( int tries = 0; tries != 3 && rsp.empty(); ++tries )
        {
            ll->sim_empty_event();
            for ( unsigned i = 0; i != ll->log.tx_count && i != LLW_MAX_TX_LOG; ++i )
            {
                const llw::pdu& p = ll->log.tx[ i ];
                if ( ( p.d[ 0 ] & 3 ) == 2 && p.n >= 6 && p.d[ 4 ] == 4 && p.d[ 5 ] == 0 ) { rsp.assign( p.d + 6, p.d + std::min< std::size_t >( p.n, LLW_MAX_PDU ) ); break; }
            }
        }
        return rsp;
    }

    static void apply_to( std::uint8_t* v, const Elem* q, int n ) { for ( int i = 0; i != n; ++i ) memcpy( v + q[ i ].off, q[ i ].data, q[ i ].len ); }

    bool apply( int ev, mc::Ctx& c )
    {
        const bool want_obs = replaying || ( rep && rep->samples.size() < 6 );
        switch ( ev )
        {
        case EV_CONNECT_X: case EV_CONNECT_Y:
        {
            if ( ref.connected ) return false;
            llw::connect_ind ci;
            if ( ev == EV_CONNECT_Y ) { ci.init_addr[ 0 ] = 0x77; ci.access_address = 0x5a9ab3af; }
            std::uint8_t pdu[ 40 ];
            const std::size_t n = ci.build( pdu, ll->log.adv_data );
            const std::uint32_t ce = ll->log.ce_count;
            ll->sim_adv_received( pdu, n );
            if ( ll->log.ce_count == ce ) { c.fail( "harness:connect-ind-ignored", "the link layer did not schedule a connection event after CONNECT_IND" ); return true; }
            ll->sim_empty_event();
            ref.connected = 1; ref.central = std::uint8_t( ev == EV_CONNECT_Y ); ref.n_own = 0; if ( ref.connections < 3 ) ++ref.connections;
            c.cls( mc::fmt( "connect:%s:%s", ref.connections == 1 ? "first" : "again", ref.n_all ? "predecessor-left-prepared-writes" : "clean" ) );
            return true;
        }
        case EV_PREPARE_A: case EV_PREPARE_B:
        {
            if ( !ref.connected || ref.n_all == MAXE ) return false;
            Elem e; memset( &e, 0, sizeof e );
            e.off = ev == EV_PREPARE_A ? 0 : 1; e.len = ev == EV_PREPARE_A ? 2 : 1;
            e.data[ 0 ] = std::uint8_t( 0xA0 + 0x10 * ref.central + ref.n_all ); e.data[ 1 ] = std::uint8_t( 0x50 + ref.n_all );
            std::uint8_t req[ 7 ] = { 0x16, 0x03, 0x00, e.off, 0x00, e.data[ 0 ], e.data[ 1 ] };
            const std::size_t n = 5 + e.len;
            std::uint8_t before[ sizeof value ]; memcpy( before, value, sizeof value );
            const auto rsp = att( req, n );
            if ( want_obs ) c.obs = mc::hex( req, n ) + " -> " + mc::hex( rsp );
            if ( memcmp( before, value, sizeof value ) ) { c.fail( "prepare-changes-value", c.obs ); return true; }
            const bool echo = rsp.size() == n && rsp[ 0 ] == 0x17 && memcmp( rsp.data() + 1, req + 1, n - 1 ) == 0;
            const bool guaranteed = ( ref.n_all + 1 ) * 9 <= 64;    // documented sizing rule, even counting stale elements
            if ( !echo )
            {
                if ( guaranteed || !( rsp.size() == 5 && rsp[ 0 ] == 0x01 && rsp[ 4 ] == 0x09 ) )
                {
                    c.fail( mc::fmt( "prepare-refused:%s", ref.n_all != ref.n_own ? "after-reconnect" : "own-queue" ), mc::hex( req, n ) + " -> " + mc::hex( rsp ) );
                    return true;
                }
                c.cls( "prepare:queue-full" );
                return true;
            }
            ref.own[ ref.n_own++ ] = e; ref.all[ ref.n_all++ ] = e;
            c.cls( mc::fmt( "prepare:accepted:%s", ref.n_all != ref.n_own ? "stale-elements-of-predecessor-present" : "clean" ) );
            return true;
        }
        case EV_EXECUTE: case EV_CANCEL:
        {
            if ( !ref.connected ) return false;
            const std::uint8_t req[ 2 ] = { 0x18, std::uint8_t( ev == EV_EXECUTE ) };
            std::uint8_t expect[ sizeof value ], leaked[ sizeof value ];
            memcpy( expect, value, sizeof value ); memcpy( leaked, value, sizeof value );
            if ( ev == EV_EXECUTE ) { apply_to( expect, ref.own, ref.n_own ); apply_to( leaked, ref.all, ref.n_all ); }
            const auto rsp = att( req, 2 );
            if ( want_obs ) c.obs = mc::hex( req, 2 ) + " -> " + mc::hex( rsp ) + " value " + mc::hex( value, sizeof value );
            if ( rsp != std::vector< std::uint8_t >{ 0x19 } ) { c.fail( "execute-wrong-response", mc::hex( req, 2 ) + " -> " + mc::hex( rsp ) ); return true; }
            if ( memcmp( value, expect, sizeof value ) )
            {
                if ( ref.n_all != ref.n_own && memcmp( value, leaked, sizeof value ) == 0 )
                    c.fail( "prepared-writes-survive-disconnect:link-layer-never-calls-client_disconnected",
                            mc::fmt( "Execute Write(1) on a new connection applied %d prepared write(s) of a previous connection (lost by %s): value is %s, expected %s "
                                     "(the link layer never calls server::client_disconnected() and the new connection_data object has the address of the old one)",
                                     int( ref.n_all - ref.n_own ), ref.lost_by == 1 ? "LL_TERMINATE_IND" : "supervision timeout", mc::hex( value, sizeof value ).c_str(), mc::hex( expect, sizeof value ).c_str() ) );
                else
                    c.fail( "execute-wrong-result", mc::fmt( "value is %s, expected %s", mc::hex( value, sizeof value ).c_str(), mc::hex( expect, sizeof value ).c_str() ) );
                return true;
            }
            c.cls( mc::fmt( "%s:%d-own-elements:%s", ev == EV_EXECUTE ? "execute" : "cancel", int( ref.n_own ), ref.n_all != ref.n_own ? "stale-elements-dropped" : "clean" ) );
            ref.n_own = 0; ref.n_all = 0; memset( ref.own, 0, sizeof ref.own ); memset( ref.all, 0, sizeof ref.all );
            return true;
        }
        case EV_TERMINATE: case EV_SUPERVISION_TIMEOUT:
        {
            if ( !ref.connected ) return false;
            const std::uint32_t adv = ll->log.adv_count;
            if ( ev == EV_TERMINATE ) { const std::uint8_t term[] = { 0x02, 0x13 }; ll->sim_ll_control( term, 2 ); ll->sim_empty_event(); }
            else for ( int i = 0; i != 200 && ll->log.adv_count == adv; ++i ) ll->sim_timeout();
            if ( ll->log.adv_count == adv ) { c.fail( "harness:no-disconnect", "the link layer did not return to advertising" ); return true; }
            ref.connected = 0;
            if ( ref.n_own ) ref.lost_by = ev == EV_TERMINATE ? 1 : 2;
            ref.n_own = 0; memset( ref.own, 0, sizeof ref.own );
            c.cls( mc::fmt( "disconnect:%s:%s", ev == EV_TERMINATE ? "terminate" : "timeout", ref.n_all ? "prepared-writes-pending" : "queue-empty" ) );
            return true;
        }
        case EV_EMPTY_EVENT:
            if ( !ref.connected ) return false;
            ll->sim_empty_event();
            return true;
        default:
            if ( ref.connected ) return false;
            ll->sim_adv_timeout();
            return true;
        }
    }
};

} // namespace

int main( int argc, char** argv )
{
    mc::Args a = mc::parse_args( argc, argv );
    mc::Report rep; rep.property = "C07";
    rep.unit = a.opt.count( "unit" ) ? a.opt[ "unit" ] : "C07_ll_disconnect";
    static World w;
    w.rep = &rep;
    mc::BfsOptions o;
    o.max_depth = int( a.num( "depth", a.thorough() ? 9 : 7 ) );
    o.max_states = 3000000;
    mc::Bfs< World > bfs( w, rep, a, o );
    if ( !a.replay.empty() ) { w.replaying = true; return bfs.replay_file( mc::read_replay( a.replay ) ); }
    bfs.run();
    rep.counters[ "state_bytes" ] = bfs.isz;
    rep.notes[ "world" ] = "real link_layer<server<shared_write_queue<64>>, llw::radio>; a reference central connects, prepares, disconnects (LL_TERMINATE_IND / supervision timeout), reconnects, executes";
    rep.write( a );
    return 0;
}
