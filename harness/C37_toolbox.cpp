// C37 - the nRF52 security toolbox computes the specified cryptography (c1, s1, f4, f5, f6, g2, LL session key).
// E2: product enumeration.  The real bluetoe/bindings/nordic/nrf52/security_tool_box.cpp is built on the host against
// stubs/nrf.h (emulated ECB block); every output is compared octet by octet with harness/C37_ref_crypto.hpp, which is
// written from FIPS-197 / RFC 4493 / the Core specification and checks itself against the published vectors first.
//
// Alphabet per function: the Core sample vector, all-zero, all-ones, a counting pattern, the sample with the CMAC key
// replaced by keys that drive all four (MSB(L), MSB(K1)) sub-key branches, all address type combinations, all 256 z
// (f4); around each of those bases every single-bit flip of every input bit.  thorough: + every value of every single
// input octet and every pair of bit flips around the sample vector.
#include "../mc/mc.hpp"
#include "C37_ref_crypto.hpp"
#include "../stubs/nrf_emul.hpp"

#include <bluetoe/security_tool_box.hpp>

namespace {

typedef std::uint8_t u8;
typedef std::vector< u8 > bytes;

// ---------------------------------------------------------------------------------------------------------------
// function descriptions: the input of a case is the concatenation of the parameters exactly as the toolbox takes
// them (little endian arrays); `bits` = 1 marks an address type (only bit 0 exists)
struct Param { const char* name; int off; int len; bool flag; };
struct Fn
{
    const char* name;
    int in_len, out_len;
    std::vector< Param > params;
    int key_off;          // offset of the CMAC key parameter, -1 = none
};

enum { C1, S1, F4, F5, F6, G2, SK, NFN };

const Fn fns[ NFN ] = {
    { "c1", 64, 16, { { "k", 0, 16, false }, { "r", 16, 16, false }, { "p1", 32, 16, false }, { "p2", 48, 16, false } }, -1 },
    { "s1", 48, 16, { { "k", 0, 16, false }, { "srand", 16, 16, false }, { "mrand", 32, 16, false } }, -1 },
    { "f4", 81, 16, { { "u", 0, 32, false }, { "v", 32, 32, false }, { "x", 64, 16, false }, { "z", 80, 1, false } }, 64 },
    { "f5", 78, 32, { { "dhkey", 0, 32, false }, { "n1", 32, 16, false }, { "n2", 48, 16, false }, { "a1", 64, 6, false }, { "a2", 70, 6, false },
                      { "a1type", 76, 1, true }, { "a2type", 77, 1, true } }, 0 },
    { "f6", 81, 16, { { "w", 0, 16, false }, { "n1", 16, 16, false }, { "n2", 32, 16, false }, { "r", 48, 16, false }, { "iocap", 64, 3, false },
                      { "a1", 67, 6, false }, { "a2", 73, 6, false }, { "a1type", 79, 1, true }, { "a2type", 80, 1, true } }, 0 },
    { "g2", 96, 4,  { { "u", 0, 32, false }, { "v", 32, 32, false }, { "x", 64, 16, false }, { "y", 80, 16, false } }, 64 },
    { "sk", 32, 16, { { "ltk", 0, 16, false }, { "skdm", 16, 8, false }, { "skds", 24, 8, false } }, -1 },
};

bytes rev( const u8* p, int n ) { return bytes( std::reverse_iterator< const u8* >( p + n ), std::reverse_iterator< const u8* >( p ) ); }

// spec notation (most significant octet first) -> little endian array appended to `out`
void put_be( bytes& out, const char* hex )
{
    const bytes b = ref::from_hex( hex );
    out.insert( out.end(), b.rbegin(), b.rend() );
}

template < std::size_t N >
std::array< u8, N > arr( const u8* p ) { std::array< u8, N > a; std::copy( p, p + N, a.begin() ); return a; }

bluetoe::link_layer::device_address addr( const u8* p, u8 type )
{
    if ( type & 1 ) return bluetoe::link_layer::random_device_address( p );
    return bluetoe::link_layer::public_device_address( p );
}

// ---------------------------------------------------------------------------------------------------------------
// the implementation under test
bytes impl( int fn, const bytes& in )
{
    bluetoe::nrf52_details::security_tool_box tb;
    const u8* p = in.data();
    bytes out;

    switch ( fn )
    {
    case C1: { const auto r = tb.c1( arr< 16 >( p ), arr< 16 >( p + 16 ), arr< 16 >( p + 32 ), arr< 16 >( p + 48 ) ); out.assign( r.begin(), r.end() ); break; }
    case S1: { const auto r = tb.s1( arr< 16 >( p ), arr< 16 >( p + 16 ), arr< 16 >( p + 32 ) ); out.assign( r.begin(), r.end() ); break; }
    case F4: { const auto r = tb.f4( p, p + 32, arr< 16 >( p + 64 ), p[ 80 ] ); out.assign( r.begin(), r.end() ); break; }
    case F5: {
        const auto r = tb.f5( arr< 32 >( p ), arr< 16 >( p + 32 ), arr< 16 >( p + 48 ), addr( p + 64, p[ 76 ] ), addr( p + 70, p[ 77 ] ) );
        out.assign( r.first.begin(), r.first.end() ); out.insert( out.end(), r.second.begin(), r.second.end() ); break; }
    case F6: {
        const auto r = tb.f6( arr< 16 >( p ), arr< 16 >( p + 16 ), arr< 16 >( p + 32 ), arr< 16 >( p + 48 ), arr< 3 >( p + 64 ), addr( p + 67, p[ 79 ] ), addr( p + 73, p[ 80 ] ) );
        out.assign( r.begin(), r.end() ); break; }
    case G2: {
        const std::uint32_t r = tb.g2( p, p + 32, arr< 16 >( p + 64 ), arr< 16 >( p + 80 ) );
        for ( int i = 0; i != 4; ++i ) out.push_back( u8( r >> ( 8 * i ) ) ); break; }
    case SK: {
        // radio_hardware_with_crypto_support::setup_encryption(): SKD = SKDm (64 bit, little endian) followed by SKDs, key = LTK
        const auto r = bluetoe::nrf52_details::aes_le( arr< 16 >( p ), arr< 16 >( p + 16 ) );
        out.assign( r.begin(), r.end() ); break; }
    }
    return out;
}

// the specification
bytes spec( int fn, const bytes& in, ref::cmac_info* info )
{
    const u8* p = in.data();
    u8 o[ 32 ];
    auto B = [ & ]( int off, int n ) { return rev( p + off, n ); };
    auto A = [ & ]( int off, int type_off ) { bytes a = rev( p + off, 6 ); a.insert( a.begin(), u8( p[ type_off ] & 1 ) ); return a; };

    switch ( fn )
    {
    case C1: ref::c1( B( 0, 16 ).data(), B( 16, 16 ).data(), B( 32, 16 ).data(), B( 48, 16 ).data(), o ); return rev( o, 16 );
    case S1: ref::s1( B( 0, 16 ).data(), B( 16, 16 ).data(), B( 32, 16 ).data(), o ); return rev( o, 16 );
    case F4: ref::f4( B( 0, 32 ).data(), B( 32, 32 ).data(), B( 64, 16 ).data(), p[ 80 ], o, info ); return rev( o, 16 );
    case F5: {
        ref::f5( B( 0, 32 ).data(), B( 32, 16 ).data(), B( 48, 16 ).data(), A( 64, 76 ).data(), A( 70, 77 ).data(), o, o + 16, info );
        bytes r = rev( o, 16 ); const bytes l = rev( o + 16, 16 ); r.insert( r.end(), l.begin(), l.end() ); return r; }
    case F6: ref::f6( B( 0, 16 ).data(), B( 16, 16 ).data(), B( 32, 16 ).data(), B( 48, 16 ).data(), B( 64, 3 ).data(), A( 67, 79 ).data(), A( 73, 80 ).data(), o, info ); return rev( o, 16 );
    case G2: {
        const std::uint32_t r = ref::g2( B( 0, 32 ).data(), B( 32, 32 ).data(), B( 64, 16 ).data(), B( 80, 16 ).data(), info );
        bytes out; for ( int i = 0; i != 4; ++i ) out.push_back( u8( r >> ( 8 * i ) ) ); return out; }
    case SK: ref::ll_session_key( B( 0, 16 ).data(), B( 16, 8 ).data(), B( 24, 8 ).data(), o ); return rev( o, 16 );
    }
    return bytes();
}

// Core specification sample vectors in specification notation
bytes sample( int fn )
{
    bytes in;
    static const char* const U = "20b003d2f297be2c5e2c83a7e9f9a5b9eff49111acf4fddbcc0301480e359de6";
    static const char* const V = "55188b3d32f6bb9a900afcfbeed4e72a59cb9ac2f19d7cfb6b4fdd49f47fc5fd";
    static const char* const X = "d5cb8454d177733effffb2ec712baeab";
    static const char* const Y = "a6e8e7cc25a75f6e216583f7ff3dc4cf";
    switch ( fn )
    {
    case C1: put_be( in, "00000000000000000000000000000000" ); put_be( in, "5783D52156AD6F0E6388274EC6702EE0" );
             put_be( in, "05000800000302070710000001010001" ); put_be( in, "00000000A1A2A3A4A5A6B1B2B3B4B5B6" ); break;
    case S1: put_be( in, "00000000000000000000000000000000" ); put_be( in, "000F0E0D0C0B0A091122334455667788" ); put_be( in, "010203040506070899AABBCCDDEEFF00" ); break;
    case F4: put_be( in, U ); put_be( in, V ); put_be( in, X ); in.push_back( 0 ); break;
    case F5: put_be( in, "ec0234a357c8ad05341010a60a397d9b99796b13b4f866f1868d34f373bfa698" ); put_be( in, X ); put_be( in, Y );
             put_be( in, "56123737bfce" ); put_be( in, "a713702dcfc1" ); in.push_back( 0 ); in.push_back( 0 ); break;
    case F6: put_be( in, "2965f176a1084a02fd3f6a20ce636e20" ); put_be( in, X ); put_be( in, Y ); put_be( in, "12a3343bb453bb5408da42d20c2d0fc8" );
             put_be( in, "010102" ); put_be( in, "56123737bfce" ); put_be( in, "a713702dcfc1" ); in.push_back( 0 ); in.push_back( 0 ); break;
    case G2: put_be( in, U ); put_be( in, V ); put_be( in, X ); put_be( in, Y ); break;
    case SK: put_be( in, "4C68384139F574D836BCF34E9DFB01BF" ); put_be( in, "ACBDCEDFE0F10213" ); put_be( in, "0213243546576879" ); break;
    }
    return in;
}

const char* sample_out( int fn )
{
    switch ( fn )
    {
    case C1: return "1e1e3fef878988ead2a74dc5bef13b86";
    case S1: return "9a1fe1f0e8b0f49b5b4216ae796da062";
    case F4: return "f2c916f107a9bd1cf1eda1bea974872d";
    case F5: return "6986791169d7cd23980522b594750a38" "2965f176a1084a02fd3f6a20ce636e20";  // LTK || MacKey: reversed = MacKey(le) || LTK(le)
    case F6: return "e3c473989cd0e8c5d26c0b09da958f61";
    case G2: return "2f9ed5ba";
    case SK: return "99AD1B5226A37E3E058E3B8E27C2C666";
    }
    return "";
}

// ---------------------------------------------------------------------------------------------------------------
struct Checker
{
    mc::Report&     rep;
    const mc::Args& args;
    bool            failed[ NFN ] = { false };
    std::map< std::string, std::pair< std::uint64_t, std::uint64_t > > per_class;   // fn/class -> ( cases, mismatches )
    bool            cut = false;

    Checker( mc::Report& r, const mc::Args& a ) : rep( r ), args( a ) {}

    static std::string line( int fn, const bytes& in ) { return std::string( fns[ fn ].name ) + " " + mc::hex( in ); }

    // one evaluation; base_out (optional): output of the base vector, to record whether the variation is visible
    bool eval( int fn, const std::string& cls, const bytes& in, const bytes* base_out = nullptr, bool verbose = false )
    {
        ref::cmac_info info; info.blocks = 0;
        const bytes want = spec( fn, in, &info );
        bytes got;
        std::string stuck;
        try { got = impl( fn, in ); }
        catch ( const verif_nrf::stuck& s ) { stuck = s.what; }

        ++rep.evaluations; ++rep.traces_validated;
        auto& pc = per_class[ std::string( fns[ fn ].name ) + "/" + cls ];
        ++pc.first;

        if ( verbose )
            printf( "  %s in=%s\n    toolbox=%s\n    spec   =%s\n", fns[ fn ].name, mc::hex( in ).c_str(), stuck.empty() ? mc::hex( got ).c_str() : stuck.c_str(), mc::hex( want ).c_str() );

        std::string c = std::string( fns[ fn ].name ) + "/" + cls;
        if ( base_out ) c += want == *base_out ? "/output-same-as-base" : "/output-differs-from-base";
        rep.cls( c );
        if ( info.blocks )
            rep.cls( mc::fmt( "%s/cmac-%s-msbL%d-msbK1%d", fns[ fn ].name, info.complete_block ? "K1" : "K2", int( info.msb_l ), int( info.msb_k1 ) ) );

        if ( got == want ) return true;

        ++pc.second;
        if ( !failed[ fn ] )
        {
            failed[ fn ] = true;
            std::string part;
            if ( fn == F5 && stuck.empty() )
            {
                const bool mac_ok = std::equal( got.begin(), got.begin() + 16, want.begin() );
                const bool ltk_ok = std::equal( got.begin() + 16, got.end(), want.begin() + 16 );
                part = mac_ok ? "-ltk" : ltk_ok ? "-mackey" : "";
            }
            rep.fail( mc::fmt( "%s%s-differs-from-spec:%s", fns[ fn ].name, part.c_str(), stuck.empty() ? cls.c_str() : "register-busy-loop" ),
                      mc::fmt( "%s(%s) [parameters little endian, concatenated] returns %s, the specification gives %s", fns[ fn ].name, mc::hex( in ).c_str(),
                               stuck.empty() ? mc::hex( got ).c_str() : stuck.c_str(), mc::hex( want ).c_str() ),
                      { line( fn, in ) } );
        }
        return false;
    }

    bool expired()
    {
        if ( !cut && ( rep.evaluations & 1023 ) == 0 && args.expired() ) cut = true;
        return cut;
    }

    // every single-bit flip of every input bit around `base`
    void flips( int fn, const std::string& base_name, const bytes& base )
    {
        const bytes base_out = spec( fn, base, nullptr );
        for ( const Param& pa : fns[ fn ].params )
            for ( int bit = 0; bit != ( pa.flag ? 1 : 8 * pa.len ) && !expired(); ++bit )
            {
                bytes in = base;
                in[ pa.off + bit / 8 ] ^= u8( 1 << ( bit % 8 ) );
                eval( fn, base_name + "+flip-" + pa.name, in, &base_out );
            }
    }

    void byte_values( int fn, const bytes& base )
    {
        const bytes base_out = spec( fn, base, nullptr );
        for ( const Param& pa : fns[ fn ].params )
            for ( int i = 0; i != pa.len && !pa.flag; ++i )
                for ( int v = 0; v != 256 && !expired(); ++v )
                {
                    bytes in = base;
                    in[ pa.off + i ] = u8( v );
                    eval( fn, std::string( "sample+octet-" ) + pa.name, in, &base_out );
                }
    }

    void flip_pairs( int fn, const bytes& base )
    {
        std::vector< std::pair< int, u8 > > bits;
        for ( const Param& pa : fns[ fn ].params )
            for ( int bit = 0; bit != ( pa.flag ? 1 : 8 * pa.len ); ++bit )
                bits.push_back( { pa.off + bit / 8, u8( 1 << ( bit % 8 ) ) } );
        const bytes base_out = spec( fn, base, nullptr );
        for ( std::size_t i = 0; i != bits.size(); ++i )
            for ( std::size_t j = i + 1; j != bits.size() && !expired(); ++j )
            {
                bytes in = base;
                in[ bits[ i ].first ] ^= bits[ i ].second;
                in[ bits[ j ].first ] ^= bits[ j ].second;
                eval( fn, "sample+2-flips", in, &base_out );
            }
    }
};

// keys (specification order) for which MSB( AES_k( 0 ) ) and MSB( K1 ) take all four combinations; f5: DHKeys whose T does
std::vector< bytes > branch_inputs( int fn, const bytes& base )
{
    std::vector< bytes > out( 4 );
    unsigned found = 0;
    const Fn& f = fns[ fn ];
    for ( unsigned n = 1; n != 4096 && found != 15; ++n )
    {
        bytes in = base;
        // vary the two least significant octets of the key parameter (dhkey for f5)
        in[ f.key_off ] = u8( n ); in[ f.key_off + 1 ] = u8( n >> 8 );
        u8 key[ 16 ];
        if ( fn == F5 )
        {
            static const u8 salt[ 16 ] = { 0x6C,0x88,0x83,0x91,0xAA,0xF5,0xA5,0x38,0x60,0x37,0x0B,0xDB,0x5A,0x60,0x83,0xBE };
            ref::cmac( salt, rev( in.data(), 32 ).data(), 32, key );
        }
        else
        {
            const bytes k = rev( in.data() + f.key_off, 16 );
            std::copy( k.begin(), k.end(), key );
        }
        u8 k1[ 16 ], k2[ 16 ]; ref::cmac_info ci;
        ref::cmac_subkeys( ref::aes128( key ), k1, k2, &ci );
        const unsigned combo = ( ci.msb_l ? 2 : 0 ) | ( ci.msb_k1 ? 1 : 0 );
        if ( !( found & ( 1u << combo ) ) ) { found |= 1u << combo; out[ combo ] = in; }
    }
    if ( found != 15 ) { fprintf( stderr, "C37: no key found for all CMAC sub-key branches of %s\n", f.name ); exit( 2 ); }
    return out;
}

int replay( Checker& ck, const mc::ReplayFile& rf )
{
    int rc = 0;
    for ( const std::string& s : rf.steps )
    {
        const auto sp = s.find( ' ' );
        const std::string name = s.substr( 0, sp );
        const bytes in = mc::unhex( s.substr( sp + 1 ) );
        for ( int fn = 0; fn != NFN; ++fn )
            if ( name == fns[ fn ].name && int( in.size() ) == fns[ fn ].in_len )
            {
                printf( "step %s\n", s.c_str() );
                if ( !ck.eval( fn, "replay", in, nullptr, true ) ) { printf( "REPRODUCED %s\n", rf.sig.c_str() ); rc = 1; }
            }
    }
    if ( !rc ) printf( "not reproduced\n" );
    return rc;
}

} // namespace

int main( int argc, char** argv )
{
    mc::Args a = mc::parse_args( argc, argv );
    mc::Report rep; rep.property = "C37"; rep.unit = a.opt.count( "unit" ) ? a.opt[ "unit" ] : "C37_toolbox";

    // --- the harness checks itself first: any failure here is a harness error (exit 2), never a verdict ---
    if ( !verif_nrf::check_low_memory() ) { fprintf( stderr, "C37: static data is not below 4 GB, build with -no-pie\n" ); return 2; }
    const std::string st = ref::self_test();
    if ( !st.empty() ) { fprintf( stderr, "C37: reference self test failed: %s\n", st.c_str() ); return 2; }
    {   // emulated ECB block == reference AES on the FIPS vector and on 4096 patterned blocks
        for ( unsigned n = 0; n != 4096; ++n )
        {
            u8 k[ 16 ], p[ 16 ], x[ 16 ], y[ 16 ];
            for ( int i = 0; i != 16; ++i ) { k[ i ] = u8( ( n * 2654435761u >> ( i % 4 * 8 ) ) ^ ( i * 37 * n ) ); p[ i ] = u8( ( n * 40503u >> ( i % 3 * 8 ) ) ^ ( i * 91 + n ) ); }
            ref::e( k, p, x ); verif_nrf::ecb_aes128( k, p, y );
            if ( memcmp( x, y, 16 ) ) { fprintf( stderr, "C37: emulated ECB block and reference AES disagree\n" ); return 2; }
        }
        for ( int fn = 0; fn != NFN; ++fn )
        {
            const bytes in = sample( fn );
            if ( int( in.size() ) != fns[ fn ].in_len ) { fprintf( stderr, "C37: sample size %s\n", fns[ fn ].name ); return 2; }
            bytes want = ref::from_hex( sample_out( fn ) ); std::reverse( want.begin(), want.end() );
            if ( spec( fn, in, nullptr ) != want ) { fprintf( stderr, "C37: reference does not reproduce the Core sample of %s\n", fns[ fn ].name ); return 2; }
        }
    }

    verif_nrf::reset();
    Checker ck( rep, a );
    if ( !a.replay.empty() ) return replay( ck, mc::read_replay( a.replay ) );

    for ( int fn = 0; fn != NFN; ++fn )
    {
        const Fn& f = fns[ fn ];
        std::vector< std::pair< std::string, bytes > > bases;
        bases.push_back( { "sample", sample( fn ) } );
        bases.push_back( { "zero", bytes( f.in_len, 0x00 ) } );
        {
            bytes ones( f.in_len, 0xff ), counting( f.in_len );
            for ( int i = 0; i != f.in_len; ++i ) counting[ i ] = u8( 7 * i + 1 );
            for ( const Param& pa : f.params ) if ( pa.flag ) { ones[ pa.off ] = 1; counting[ pa.off ] = 0; }
            bases.push_back( { "ones", ones } );
            bases.push_back( { "counting", counting } );
        }
        if ( f.key_off >= 0 )
        {
            const std::vector< bytes > br = branch_inputs( fn, sample( fn ) );
            for ( int c = 0; c != 4; ++c ) bases.push_back( { mc::fmt( "subkey-msbL%d-msbK1%d", c >> 1, c & 1 ), br[ c ] } );
        }

        for ( auto& b : bases ) ck.eval( fn, b.first, b.second );
        rep.sample( mc::fmt( "%s(%s) = %s", f.name, mc::hex( bases[ 0 ].second ).c_str(), mc::hex( impl( fn, bases[ 0 ].second ) ).c_str() ), 8 );

        // address types: all combinations on the sample, zero and ones vectors
        for ( int t = 0; t != 4 && ( fn == F5 || fn == F6 ); ++t )
            for ( int b = 0; b != 3; ++b )
            {
                bytes in = bases[ b ].second;
                in[ f.in_len - 2 ] = u8( t >> 1 ); in[ f.in_len - 1 ] = u8( t & 1 );
                ck.eval( fn, mc::fmt( "%s+addrtypes-%d%d", bases[ b ].first.c_str(), t >> 1, t & 1 ), in );
            }

        // f4: all 256 z on the sample and on every sub-key branch
        for ( int z = 0; z != 256 && fn == F4; ++z )
            for ( std::size_t b = 0; b != bases.size(); ++b )
            {
                if ( b == 1 || b == 2 || b == 3 ) continue;
                bytes in = bases[ b ].second; in[ 80 ] = u8( z );
                ck.eval( fn, bases[ b ].first + "+all-z", in );
            }

        for ( auto& b : bases ) ck.flips( fn, b.first, b.second );

        if ( a.thorough() )
        {
            ck.byte_values( fn, bases[ 0 ].second );
            ck.flip_pairs( fn, bases[ 0 ].second );
        }
    }

    if ( ck.cut ) { rep.exhaustive = false; rep.notes[ "cut" ] = "deadline reached before the alphabet was completely enumerated"; }

    std::string mism;
    for ( auto& kv : ck.per_class )
        if ( kv.second.second ) mism += mc::fmt( "%s %llu/%llu; ", kv.first.c_str(), ( unsigned long long )kv.second.second, ( unsigned long long )kv.second.first );
    if ( !mism.empty() ) rep.notes[ "mismatching input classes (mismatches/cases)" ] = mism;
    rep.counters[ "input classes" ] = ck.per_class.size();
    rep.counters[ "AES blocks run by the emulated ECB" ] = verif_nrf::ecb_blocks;
    rep.notes[ "self-test" ] = "reference AES: FIPS-197 B, C.1; CMAC: RFC 4493 K1, K2, examples 1-4; c1/s1/f4/f5/f6/g2/session key: Core sample data; emulated ECB == reference AES on 4096 blocks";
    rep.notes[ "bound" ] = "alphabet enumerated completely; inputs outside the alphabet (2^128 domains) are not decided";
    rep.write( a );
    return 0;
}
