// C27 - Link control PDUs get the specified responses.
//
// DUT: the real bluetoe::link_layer::link_layer<> over the shared POD radio (ll_world.hpp).
//   part A (E2): opcode 0x00..0x1A,0xFF x length field 0..27 x 2 payload patterns x prepared connection states; every case
//                runs on a restored byte image of the prepared state: PDU event, answer event, one more event.
//   part B (E2): procedure response timeout: own procedure x connection interval x pattern of missed events, run until the
//                link closes; plus the "answered -> no timeout" and "nothing pending -> no timeout" controls.
//   part D (E2): boundary value family of LL_CONNECTION_PARAM_REQ (interval, latency, timeout, consistency, preferred
//                periodicity / reference count / offsets) and LL_PHY_UPDATE_IND PHYs, per prepared state, judged from the Core ranges.
//   part C (E1): all short sequences (C28_explore.hpp) of well formed control PDUs and API calls with a reference model (version
//                answered once, cumulative feature set, pending own procedure and its timer); bounded liveness run
//                (drain) from every reachable state decides the 40 s rule.
//
// Variants: C27_ENC=0 server without encryption requirement, llw::radio;  C27_ENC=1 server with a requires_encryption
// characteristic, llw::radio_enc and a scripted key source (adds the state "encrypted").
#include "../mc/mc.hpp"
#include "C28_explore.hpp"
#include <bluetoe/server.hpp>
#include <bluetoe/link_layer.hpp>
#include "ll_world.hpp"

#ifndef C27_ENC
#define C27_ENC 0
#endif

namespace {

// ---------------------------------------------------------------------------------------------------------------------
std::uint8_t char_value = 7;

#if C27_ENC
using server_t = bluetoe::server<
    bluetoe::service< bluetoe::service_uuid16< 0x1234 >,
        bluetoe::characteristic< bluetoe::characteristic_uuid16< 0x2345 >,
            bluetoe::bind_characteristic_value< std::uint8_t, &char_value >, bluetoe::no_write_access >,
        bluetoe::requires_encryption > >;

// scripted key source: every EDIV/Rand but EDIV 0xDEAD is known (C28 explores the key handling; here it opens the state
// "encrypted" and provides a request that has to be rejected)
struct scripted_sm
{
    template < typename ... >
    class impl
    {
    public:
        template < class Other >
        class channel_data_t : public Other
        {
        public:
            std::pair< bool, bluetoe::details::uint128_t > find_key( std::uint16_t ediv, std::uint64_t ) const
            {
                if ( ediv == 0xDEAD ) return { false, bluetoe::details::uint128_t{} };
                bluetoe::details::uint128_t k; for ( int i = 0; i != 16; ++i ) k[ i ] = std::uint8_t( 0x30 + i );
                return { true, k };
            }
            void remote_connection_created( const bluetoe::link_layer::device_address& ) {}
            bluetoe::device_pairing_status local_device_pairing_status() const { return bluetoe::device_pairing_status::unauthenticated_key; }
            template < typename Connection > void restore_bonded_cccds( Connection& ) {}
        };
        template < class C > void l2cap_input( const std::uint8_t*, std::size_t, std::uint8_t*, std::size_t& out, C& ) { out = 0; }
        template < class C > bool security_manager_output_available( C& ) const { return false; }
        template < class C > void l2cap_output( std::uint8_t*, std::size_t& out, C& ) { out = 0; }
        static constexpr std::uint16_t channel_id               = bluetoe::l2cap_channel_ids::sm;
        static constexpr std::size_t   minimum_channel_mtu_size = bluetoe::details::default_att_mtu_size;
        static constexpr std::size_t   maximum_channel_mtu_size = bluetoe::details::default_att_mtu_size;
    };
    struct meta_type : bluetoe::details::security_manager_meta_type, bluetoe::link_layer::details::valid_link_layer_option_meta_type {};
};
#else
using server_t = bluetoe::server<
    bluetoe::service< bluetoe::service_uuid16< 0x1234 >,
        bluetoe::characteristic< bluetoe::characteristic_uuid16< 0x2345 >,
            bluetoe::bind_characteristic_value< std::uint8_t, &char_value >, bluetoe::no_write_access > > >;
#endif

// observation of the connection life cycle through the public callback interface
struct recorder
{
    std::uint8_t established, closed, reason, attempt_timeout;
    template < class C > void ll_connection_established( const bluetoe::link_layer::connection_details&, const bluetoe::link_layer::connection_addresses&, C& ) { ++established; }
    template < class C > void ll_connection_closed( std::uint8_t r, C& ) { ++closed; reason = r; }
    template < class C > void ll_connection_attempt_timeout( C& ) { ++attempt_timeout; }
} rec;

#if C27_ENC
using ll_t = bluetoe::link_layer::link_layer< server_t, llw::radio_enc, scripted_sm, bluetoe::link_layer::connection_callbacks< recorder, rec > >;
#else
using ll_t = bluetoe::link_layer::link_layer< server_t, llw::radio, bluetoe::link_layer::connection_callbacks< recorder, rec > >;
#endif

mc::Placed< ll_t > ll;

// feature bits, written down from the Core specification / the documented option set - not taken from the implementation
constexpr std::uint16_t F_ENC = 0x001, F_CONN_PARAM = 0x002, F_EXT_REJECT = 0x004, F_PING = 0x010, F_2M = 0x100;
constexpr std::uint16_t supported_features = F_CONN_PARAM | F_EXT_REJECT | F_PING | F_2M | ( C27_ENC ? F_ENC : 0 );

constexpr std::uint32_t response_timeout_us = 40u * 1000u * 1000u;

// ---------------------------------------------------------------------------------------------------------------------
// opcodes
enum : std::uint8_t {
    CONNECTION_UPDATE_IND = 0x00, CHANNEL_MAP_REQ = 0x01, TERMINATE_IND = 0x02, ENC_REQ = 0x03, ENC_RSP = 0x04, START_ENC_REQ = 0x05,
    START_ENC_RSP = 0x06, UNKNOWN_RSP = 0x07, FEATURE_REQ = 0x08, FEATURE_RSP = 0x09, PAUSE_ENC_REQ = 0x0A, PAUSE_ENC_RSP = 0x0B,
    VERSION_IND = 0x0C, REJECT_IND = 0x0D, PERIPHERAL_FEATURE_REQ = 0x0E, CONNECTION_PARAM_REQ = 0x0F, CONNECTION_PARAM_RSP = 0x10,
    REJECT_EXT_IND = 0x11, PING_REQ = 0x12, PING_RSP = 0x13, LENGTH_REQ = 0x14, LENGTH_RSP = 0x15, PHY_REQ = 0x16, PHY_RSP = 0x17,
    PHY_UPDATE_IND = 0x18, MIN_USED_CHANNELS_IND = 0x19, CTE_REQ = 0x1A };

const char* opname( std::uint8_t op )
{
    static const char* n[] = { "connection-update-ind", "channel-map-ind", "terminate-ind", "enc-req", "enc-rsp", "start-enc-req", "start-enc-rsp",
        "unknown-rsp", "feature-req", "feature-rsp", "pause-enc-req", "pause-enc-rsp", "version-ind", "reject-ind", "peripheral-feature-req",
        "connection-param-req", "connection-param-rsp", "reject-ext-ind", "ping-req", "ping-rsp", "length-req", "length-rsp", "phy-req", "phy-rsp",
        "phy-update-ind", "min-used-channels-ind", "cte-req" };
    return op <= 0x1A ? n[ op ] : "undefined-opcode";
}

// length of the well formed PDU (opcode + CtrData) as specified in Core Vol 6 Part B 2.4.2; 0 = opcode not defined
unsigned proper_length( std::uint8_t op )
{
    static const std::uint8_t l[] = { 12, 8, 2, 23, 13, 1, 1, 2, 9, 9, 1, 1, 6, 2, 9, 24, 24, 3, 1, 1, 9, 9, 3, 3, 5, 3, 3 };
    return op <= 0x1A ? l[ op ] : 0;
}

// ---------------------------------------------------------------------------------------------------------------------
// driving the link layer
struct conn_params { std::uint16_t interval, timeout; };

bool alive() { return rec.closed == 0 && rec.attempt_timeout == 0; }

void connect( conn_params p )
{
    char_value = 7;
    std::memset( &rec, 0, sizeof rec );
    ll.construct();
    ll->run();
    std::uint8_t ci[ 40 ];
    llw::connect_ind c; c.interval = p.interval; c.timeout = p.timeout;
    const std::size_t n = c.build( ci, ll->log.adv_data );
    ll->sim_adv_received( ci, n );
    ll->sim_empty_event();   // first connection event: connection established
}

struct answer
{
    unsigned      n_ctrl = 0, n_data = 0;      // non empty PDUs transmitted in the event
    std::uint8_t  pdu[ 40 ] = { 0 };           // first control PDU: opcode + CtrData
    unsigned      len = 0;
    bool          encrypted = false;
};

answer collect()
{
    answer a;
    for ( unsigned i = 0; i < ll->log.tx_count && i < LLW_MAX_TX_LOG; ++i )
    {
        const llw::pdu& t = ll->log.tx[ i ];
        if ( t.n <= 2 ) continue;
        if ( ( t.d[ 0 ] & 3 ) == 3 )
        {
            if ( a.n_ctrl == 0 ) { a.len = t.n - 2u; std::memcpy( a.pdu, t.d + 2, a.len < sizeof a.pdu ? a.len : sizeof a.pdu ); a.encrypted = t.encrypted; }
            ++a.n_ctrl;
        }
        else ++a.n_data;
    }
    return a;
}

std::string show( const answer& a )
{
    if ( a.n_ctrl == 0 && a.n_data == 0 ) return "-";
    return mc::fmt( "%uctrl/%udata:", a.n_ctrl, a.n_data ) + mc::hex( a.pdu, a.len );
}

// payload of a control PDU: pattern 0 = plausible field values, pattern 1 = 0xFF fill; always truncated / padded to len
unsigned build_pdu( std::uint8_t op, unsigned len, int pattern, std::uint8_t* out )
{
    std::uint8_t full[ 32 ];
    std::memset( full, pattern == 0 ? 0x5A : 0xFF, sizeof full );
    full[ 0 ] = op;
    if ( pattern == 0 )
    {
        const std::uint16_t instant = std::uint16_t( ll->connection_event_counter() + 6 );
        const std::uint16_t iv = std::uint16_t( ll->log.ce_interval_us / 1250 );
        switch ( op )
        {
        case CONNECTION_UPDATE_IND: { const std::uint8_t b[] = { 1, 0, 0, std::uint8_t( iv ), std::uint8_t( iv >> 8 ), 0, 0, 0x80, 0x0c, std::uint8_t( instant ), std::uint8_t( instant >> 8 ) }; std::memcpy( full + 1, b, sizeof b ); } break;
        case CHANNEL_MAP_REQ:       { const std::uint8_t b[] = { 0xff, 0xf7, 0xff, 0xff, 0x1f, std::uint8_t( instant ), std::uint8_t( instant >> 8 ) }; std::memcpy( full + 1, b, sizeof b ); } break;
        case TERMINATE_IND:         full[ 1 ] = 0x13; break;
        case ENC_REQ:               { for ( int i = 1; i != 23; ++i ) full[ i ] = std::uint8_t( i ); } break;
        case UNKNOWN_RSP:           full[ 1 ] = CONNECTION_PARAM_REQ; break;
        case FEATURE_REQ: case FEATURE_RSP: case PERIPHERAL_FEATURE_REQ: std::memset( full + 1, 0xff, 8 ); break;
        case VERSION_IND:           { const std::uint8_t b[] = { 0x08, 0x00, 0x02, 0x00, 0x00 }; std::memcpy( full + 1, b, sizeof b ); } break;
        case REJECT_IND:            full[ 1 ] = 0x1a; break;
        case CONNECTION_PARAM_REQ: case CONNECTION_PARAM_RSP:
            { const std::uint8_t b[] = { 0x18, 0, 0x28, 0, 0, 0, 0x48, 0, 0, 0, 0, 0xff, 0xff, 0xff, 0xff, 0xff, 0xff, 0xff, 0xff, 0xff, 0xff, 0xff, 0xff }; std::memcpy( full + 1, b, sizeof b ); } break;
        case REJECT_EXT_IND:        full[ 1 ] = CONNECTION_PARAM_REQ; full[ 2 ] = 0x1a; break;
        case LENGTH_REQ: case LENGTH_RSP: { const std::uint8_t b[] = { 0xfb, 0, 0x48, 0x08, 0xfb, 0, 0x48, 0x08 }; std::memcpy( full + 1, b, sizeof b ); } break;
        case PHY_REQ: case PHY_RSP: full[ 1 ] = 0x02; full[ 2 ] = 0x02; break;
        case PHY_UPDATE_IND:        full[ 1 ] = 0x02; full[ 2 ] = 0x02; full[ 3 ] = std::uint8_t( instant ); full[ 4 ] = std::uint8_t( instant >> 8 ); break;
        case MIN_USED_CHANNELS_IND: full[ 1 ] = 0x01; full[ 2 ] = 0x02; break;
        default: break;
        }
    }
    std::memcpy( out, full, len );
    return len;
}

// ---------------------------------------------------------------------------------------------------------------------
// the table of specified responses
enum class ex { unknown_rsp, unknown_rsp_or_none, none, feature_rsp, version_ind, version_repeat, version_after_own, ping_rsp, phy_rsp,
                conn_param, terminate, instant, encryption_procedure, empty_pdu };

ex expectation( std::uint8_t op, unsigned len, bool version_answered, bool own_version_sent )
{
    if ( len == 0 ) return ex::empty_pdu;                                   // LLID 3 without opcode: not a control PDU at all
    const bool well_formed = proper_length( op ) == len;
    switch ( op )
    {
    case CONNECTION_UPDATE_IND: case CHANNEL_MAP_REQ: case PHY_UPDATE_IND:  return well_formed ? ex::instant : ex::unknown_rsp;
    case TERMINATE_IND:         return well_formed ? ex::terminate : ex::unknown_rsp;
    case ENC_REQ: case START_ENC_RSP: case PAUSE_ENC_REQ: case PAUSE_ENC_RSP:
        return C27_ENC && well_formed ? ex::encryption_procedure : op == PAUSE_ENC_RSP || op == START_ENC_RSP ? ex::unknown_rsp_or_none : ex::unknown_rsp;
    // responses to procedures that only the peripheral starts and PDUs only a peripheral sends: central-illegal, may be
    // treated as unknown requests or be ignored
    case ENC_RSP: case START_ENC_REQ: case FEATURE_RSP: case CONNECTION_PARAM_RSP: case PING_RSP: case LENGTH_RSP: case PHY_RSP:
        return ex::unknown_rsp_or_none;
    case UNKNOWN_RSP: case REJECT_IND: case REJECT_EXT_IND:                 return well_formed ? ex::none : ex::unknown_rsp_or_none;
    case FEATURE_REQ:           return well_formed ? ex::feature_rsp : ex::unknown_rsp;
    case VERSION_IND:           return !well_formed ? ex::unknown_rsp : version_answered ? ex::version_repeat : own_version_sent ? ex::version_after_own : ex::version_ind;
    case CONNECTION_PARAM_REQ:  return well_formed ? ex::conn_param : ex::unknown_rsp;
    case PING_REQ:              return well_formed ? ex::ping_rsp : ex::unknown_rsp;
    case PHY_REQ:               return well_formed ? ex::phy_rsp : ex::unknown_rsp;
    default:                    return ex::unknown_rsp;                     // features not implemented and undefined opcodes
    }
}

// judges the answer to one received control PDU.  Returns "" or a signature; kind receives the outcome class.
struct verdict { std::string sig, detail, kind; };

verdict judge( std::uint8_t op, unsigned len, const std::uint8_t* req, ex e, const answer& a, bool closed, std::uint8_t reason,
               std::uint16_t ref_used /* cumulative feature set of the reference */ )
{
    verdict v;
    const std::string in = opname( op );
    auto bad = [&]( const std::string& sig, const std::string& d ) { v.sig = sig; v.detail = d + mc::fmt( " (request %s, answer %s%s)", mc::hex( req, len ).c_str(), show( a ).c_str(), closed ? mc::fmt( ", closed 0x%02x", reason ).c_str() : "" ); return v; };

    const bool is_unknown_rsp = a.n_ctrl == 1 && a.len == 2 && a.pdu[ 0 ] == UNKNOWN_RSP;
    const bool names_opcode   = is_unknown_rsp && a.pdu[ 1 ] == op;

    if ( e == ex::encryption_procedure )        // answers of the encryption procedures are C28's subject
    {
        if ( closed ) return bad( mc::fmt( "connection-closed-by-control-pdu:%s", in.c_str() ), mc::fmt( "the connection was closed (reason 0x%02x)", reason ) );
        v.kind = "encryption-pdu(C28)";
        return v;
    }
    if ( a.n_data ) return bad( "l2cap-data-as-answer:" + in, "an L2CAP PDU was transmitted in answer to a control PDU" );
    if ( a.n_ctrl > 1 ) return bad( "more-than-one-answer:" + in, "more than one control PDU was transmitted in answer to one control PDU" );

    if ( closed && e != ex::terminate && e != ex::instant )
        return bad( mc::fmt( "connection-closed-by-control-pdu:%s", in.c_str() ), mc::fmt( "the connection was closed (reason 0x%02x)", reason ) );

    switch ( e )
    {
    case ex::empty_pdu:
        v.kind = a.n_ctrl == 0 ? "zero-length->none" : "zero-length->answer";
        if ( a.n_ctrl && !is_unknown_rsp ) return bad( "zero-length-control-pdu:answered", "control PDU without opcode answered by something else than LL_UNKNOWN_RSP" );
        break;
    case ex::unknown_rsp:
        v.kind = proper_length( op ) ? "malformed-request->unknown_rsp" : "unknown-opcode->unknown_rsp";
        if ( a.n_ctrl == 0 ) return bad( "unknown-rsp:missing:" + std::string( proper_length( op ) ? "wrong-length-" : "" ) + in, "no LL_UNKNOWN_RSP for an unknown / malformed request" );
        if ( !is_unknown_rsp ) return bad( "unknown-rsp:other-answer:" + std::string( proper_length( op ) ? "wrong-length-" : "" ) + in, "unknown / malformed request answered by something else than LL_UNKNOWN_RSP" );
        if ( !names_opcode ) return bad( "unknown-rsp:wrong-opcode-named", mc::fmt( "LL_UNKNOWN_RSP names 0x%02x instead of 0x%02x", a.pdu[ 1 ], op ) );
        break;
    case ex::unknown_rsp_or_none:
        v.kind = a.n_ctrl == 0 ? "illegal-or-malformed-response->none" : "illegal-or-malformed-response->unknown_rsp";
        if ( a.n_ctrl && !is_unknown_rsp ) return bad( "response-answered:" + in, "a response PDU was answered by something else than LL_UNKNOWN_RSP" );
        if ( a.n_ctrl && !names_opcode ) return bad( "unknown-rsp:wrong-opcode-named", mc::fmt( "LL_UNKNOWN_RSP names 0x%02x instead of 0x%02x", a.pdu[ 1 ], op ) );
        break;
    case ex::none:
        v.kind = "response->none";
        if ( a.n_ctrl ) return bad( "response-answered:" + in, "LL_UNKNOWN_RSP / LL_REJECT_IND / LL_REJECT_EXT_IND must never be answered" );
        break;
    case ex::feature_rsp:
    {
        v.kind = "feature_req->feature_rsp";
        if ( !( a.n_ctrl == 1 && a.len == 9 && a.pdu[ 0 ] == FEATURE_RSP ) ) return bad( "feature-rsp:missing", "LL_FEATURE_REQ not answered by LL_FEATURE_RSP" );
        const std::uint8_t strict = std::uint8_t( supported_features & req[ 1 ] ), cumulative = std::uint8_t( ref_used & req[ 1 ] );
        if ( a.pdu[ 1 ] & ~strict ) return bad( "feature-rsp:not-intersection:feature-offered-that-is-not-in-both-sets", mc::fmt( "FeatureSet[0] 0x%02x is not a subset of supported 0x%02x & received 0x%02x", a.pdu[ 1 ], supported_features & 0xff, req[ 1 ] ) );
        if ( a.pdu[ 1 ] != strict && a.pdu[ 1 ] != cumulative ) return bad( "feature-rsp:not-intersection:common-feature-missing", mc::fmt( "FeatureSet[0] 0x%02x, expected 0x%02x (supported & received) or 0x%02x (features still in use & received)", a.pdu[ 1 ], strict, cumulative ) );
        bool rest = a.pdu[ 2 ] == std::uint8_t( supported_features >> 8 );
        for ( int i = 3; i != 9; ++i ) rest = rest && a.pdu[ i ] == 0;
        if ( !rest ) return bad( "feature-rsp:upper-octets-not-own-feature-set", "FeatureSet[1..7] is not the peripheral's own feature set" );
        if ( a.pdu[ 1 ] != strict ) v.kind += "(reduced by earlier exchange)";
        break;
    }
    case ex::version_ind:
    {
        v.kind = "version_ind->version_ind";
        static const std::uint8_t want[] = { VERSION_IND, 0x09, 0x69, 0x02, 0x00, 0x00 };
        if ( !( a.n_ctrl == 1 && a.len == 6 && a.pdu[ 0 ] == VERSION_IND ) ) return bad( "version-ind:not-answered", "first LL_VERSION_IND of the connection not answered by LL_VERSION_IND" );
        if ( std::memcmp( a.pdu, want, 6 ) != 0 ) return bad( "version-ind:wrong-content", "LL_VERSION_IND does not carry version 5.0 (9), company 0x0269, subversion 0" );
        break;
    }
    case ex::version_repeat:
        v.kind = a.n_ctrl == 0 ? "version_ind-again->none" : is_unknown_rsp ? "version_ind-again->unknown_rsp" : "version_ind-again->?";
        if ( a.n_ctrl && a.pdu[ 0 ] == VERSION_IND ) return bad( "version-ind:answered-twice", "a second LL_VERSION_IND in one connection was answered with LL_VERSION_IND again" );
        if ( is_unknown_rsp && !names_opcode ) return bad( "unknown-rsp:wrong-opcode-named", mc::fmt( "LL_UNKNOWN_RSP names 0x%02x instead of 0x%02x", a.pdu[ 1 ], op ) );
        if ( a.n_ctrl && !names_opcode ) return bad( "version-ind:repeat-answered-strangely", "repeated LL_VERSION_IND answered by something else than nothing / LL_UNKNOWN_RSP" );
        break;
    case ex::version_after_own:
        v.kind = a.n_ctrl == 0 ? "version_ind-completing-own-request->none" : "version_ind-completing-own-request->answer";
        if ( a.n_ctrl && a.pdu[ 0 ] == VERSION_IND ) return bad( "version-ind:answered-although-own-version-ind-sent", "the peer's LL_VERSION_IND completing the peripheral initiated version exchange was answered by a second LL_VERSION_IND (Core Vol 6 Part B 5.1.5: shall not send another)" );
        if ( a.n_ctrl ) return bad( "version-ind:completion-answered-strangely", "LL_VERSION_IND completing the own version exchange was answered" );
        break;
    case ex::ping_rsp:
        v.kind = "ping_req->ping_rsp";
        if ( !( a.n_ctrl == 1 && a.len == 1 && a.pdu[ 0 ] == PING_RSP ) ) return bad( "ping-rsp:missing", "LL_PING_REQ not answered by LL_PING_RSP" );
        break;
    case ex::phy_rsp:
        v.kind = "phy_req->phy_rsp";
        if ( !( a.n_ctrl == 1 && a.len == 3 && a.pdu[ 0 ] == PHY_RSP ) ) return bad( "phy-rsp:missing", "LL_PHY_REQ not answered by LL_PHY_RSP" );
        if ( ( a.pdu[ 1 ] & ~0x03 ) || ( a.pdu[ 2 ] & ~0x03 ) || !( a.pdu[ 1 ] & 0x01 ) || !( a.pdu[ 2 ] & 0x01 ) ) return bad( "phy-rsp:phys", "LL_PHY_RSP must offer LE 1M and may offer LE 2M only" );
        break;
    case ex::conn_param:
        if ( a.n_ctrl == 1 && a.len == 24 && a.pdu[ 0 ] == CONNECTION_PARAM_RSP ) v.kind = "conn_param_req->conn_param_rsp";
        else if ( a.n_ctrl == 1 && a.len == 3 && a.pdu[ 0 ] == REJECT_EXT_IND && a.pdu[ 1 ] == CONNECTION_PARAM_REQ ) v.kind = "conn_param_req->reject_ext_ind";
        else if ( a.n_ctrl == 1 && a.len == 2 && a.pdu[ 0 ] == REJECT_IND ) v.kind = "conn_param_req->reject_ind";
        else return bad( "conn-param-req:not-handled", "LL_CONNECTION_PARAM_REQ neither answered by LL_CONNECTION_PARAM_RSP nor rejected" );
        break;
    case ex::terminate:
        v.kind = "terminate_ind->closed";
        if ( a.n_ctrl ) return bad( "terminate-ind:answered", "LL_TERMINATE_IND was answered" );
        if ( !closed ) return bad( "terminate-ind:not-closed", "connection still open after LL_TERMINATE_IND" );
        if ( reason != req[ 1 ] ) return bad( "terminate-ind:wrong-reason", mc::fmt( "closed with reason 0x%02x instead of 0x%02x", reason, req[ 1 ] ) );
        break;
    case ex::instant:
        v.kind = closed ? mc::fmt( "instant-pdu->closed(0x%02x)", reason ) : a.n_ctrl ? "instant-pdu->unknown_rsp(invalid field)" : "instant-pdu->accepted";
        if ( closed && reason != 0x28 ) return bad( "instant-pdu:closed-with-wrong-reason:" + in, "closed, but not with 'instant passed' (0x28)" );
        if ( op == PHY_UPDATE_IND && is_unknown_rsp && !names_opcode ) return bad( "unknown-rsp:wrong-opcode-named", mc::fmt( "LL_UNKNOWN_RSP names 0x%02x instead of 0x%02x", a.pdu[ 1 ], op ) );
        if ( a.n_ctrl && !( op == PHY_UPDATE_IND && names_opcode ) ) return bad( "instant-pdu:answered:" + in, "an indication with an instant was answered" );
        break;
    case ex::encryption_procedure:
        v.kind = "encryption-pdu(C28)";
        break;
    }
    return v;
}

// ---------------------------------------------------------------------------------------------------------------------
// prepared states
enum state_id { S_FRESH, S_VERSION, S_CONN_PARAM, S_CONN_PARAM_INITIATING, S_VERSION_PENDING, S_ENCRYPTED, S_SECOND_AFTER_VERSION, S_SECOND_AFTER_OWN_VERSION, S_COUNT };
const char* state_name( int s )
{
    static const char* n[] = { "fresh", "version-exchanged", "own-conn-param-update-pending", "own-conn-param-request-pending", "own-version-request-pending", "encrypted",
                               "second-connection-after-version-exchange", "second-connection-after-own-version-exchange" };
    return n[ s ];
}

void ctrl( std::initializer_list< std::uint8_t > l ) { std::uint8_t b[ 32 ]; std::copy( l.begin(), l.end(), b ); ll->sim_ll_control( b, l.size() ); }

bool start_own_procedure( int s )
{
    switch ( s )
    {
    case S_CONN_PARAM:            return ll->connection_parameter_update_request( 0x18, 0x28, 0, 0x48 );
    case S_CONN_PARAM_INITIATING: return ll->initiating_connection_parameter_request( 0x18, 0x28, 0, 0x48 );
    case S_VERSION_PENDING:       return ll->remote_versions_request();
    }
    return false;
}

// brings the world into state s; returns false if the state could not be prepared (harness error)
bool prepare( int s, conn_params p, std::string& err )
{
    connect( p );
    if ( rec.established != 1 || !alive() ) { err = "connection not established"; return false; }
    switch ( s )
    {
    case S_FRESH: break;
    case S_SECOND_AFTER_VERSION: case S_SECOND_AFTER_OWN_VERSION:
    {   // a first connection with a completed version exchange, ended by the central; then a new connection of the same link layer
        if ( s == S_SECOND_AFTER_OWN_VERSION )
        {
            if ( !ll->remote_versions_request() ) { err = "procedure not started"; return false; }
            ll->sim_empty_event(); ll->sim_empty_event();
            if ( !( collect().n_ctrl == 1 && collect().pdu[ 0 ] == VERSION_IND ) ) { err = "own LL_VERSION_IND not transmitted"; return false; }
        }
        ctrl( { VERSION_IND, 0x08, 0x00, 0x02, 0x00, 0x00 } );
        ll->sim_empty_event();
        if ( s == S_SECOND_AFTER_VERSION && !( collect().n_ctrl == 1 && collect().pdu[ 0 ] == VERSION_IND ) ) { err = "version exchange failed"; return false; }
        ctrl( { TERMINATE_IND, 0x13 } );
        if ( rec.closed != 1 ) { err = "first connection not closed"; return false; }
        std::memset( &rec, 0, sizeof rec );
        std::uint8_t ci[ 40 ];
        llw::connect_ind c; c.interval = p.interval; c.timeout = p.timeout;
        ll->sim_adv_received( ci, c.build( ci, ll->log.adv_data ) );
        ll->sim_empty_event();
        if ( rec.established != 1 ) { err = "second connection not established"; return false; }
        break;
    }
    case S_VERSION:
        ctrl( { VERSION_IND, 0x08, 0x00, 0x02, 0x00, 0x00 } );
        ll->sim_empty_event();
        if ( !( collect().n_ctrl == 1 && collect().pdu[ 0 ] == VERSION_IND ) ) { err = "version exchange failed"; return false; }
        break;
    case S_CONN_PARAM: case S_CONN_PARAM_INITIATING: case S_VERSION_PENDING:
    {
        if ( !start_own_procedure( s ) ) { err = "procedure not started"; return false; }
        ll->sim_empty_event();      // the request is queued at the end of this event
        ll->sim_empty_event();      // ... and transmitted in this one
        const answer a = collect();
        if ( !( a.n_ctrl == 1 && a.pdu[ 0 ] == ( s == S_VERSION_PENDING ? VERSION_IND : CONNECTION_PARAM_REQ ) ) ) { err = "own request not transmitted: " + show( a ); return false; }
        break;
    }
    case S_ENCRYPTED:
#if C27_ENC
    {
        std::uint8_t b[ 32 ]; build_pdu( ENC_REQ, 23, 0, b );
        ll->sim_ll_control( b, 23 );
        ll->sim_empty_event();
        ctrl( { START_ENC_RSP } );
        ll->sim_empty_event();
        if ( !ll->connection_data_.is_encrypted() || !ll->log.rx_encrypted || !ll->log.tx_encrypted ) { err = "link not encrypted"; return false; }
        break;
    }
#else
        err = "no encryption in this variant"; return false;
#endif
    }
    return alive();
}

// ---------------------------------------------------------------------------------------------------------------------
// part A
struct Image
{
    mc::Regions r; std::vector< std::uint8_t > img;
    Image() { r.add( ll.raw, sizeof ll.raw ); r.add( rec ); r.add( char_value ); }
    void save() { img.resize( r.size() ); r.save( img.data() ); }
    void load() { r.load( img.data() ); }
};

// returns the verdict of one case; prints when verbose
verdict run_case( int s, std::uint8_t op, unsigned len, int pat, bool verbose )
{
    std::uint8_t req[ 32 ];
    build_pdu( op, len, pat, req );
    ll->sim_ll_control( req, len );
    const answer same_event = collect();          // nothing can be answered in the event that delivers the request
    answer a, later;
    bool closed = !alive();
    if ( !closed ) { ll->sim_empty_event(); a = collect(); closed = !alive(); }
    if ( !closed ) { ll->sim_empty_event(); later = collect(); closed = !alive(); }
    const ex e = expectation( op, len, s == S_VERSION, s == S_VERSION_PENDING );
    verdict v = judge( op, len, req, e, a, closed, rec.reason, supported_features );
    if ( v.sig.empty() && ( same_event.n_ctrl || same_event.n_data ) ) { v.sig = "answer-before-request"; v.detail = "PDU transmitted in the event that delivers the request: " + show( same_event ); }
    if ( v.sig.empty() && ( later.n_ctrl || later.n_data ) ) { v.sig = std::string( "late-second-answer:" ) + opname( op ); v.detail = "a further PDU was transmitted one event after the answer: " + show( later ); }
    if ( verbose ) printf( "  state %s, request %s -> answer %s, then %s%s   [%s]\n", state_name( s ), mc::hex( req, len ).c_str(), show( a ).c_str(), show( later ).c_str(),
                           closed ? mc::fmt( ", closed 0x%02x", rec.reason ).c_str() : "", v.kind.c_str() );
    return v;
}

const conn_params default_params = { 0x18, 0x48 };     // 30 ms, 720 ms as in the test suite

void part_a( const mc::Args& a, mc::Report& rep )
{
    static const std::uint8_t extra_opcodes[] = { 0xFF, 0x1B, 0x25, 0x80 };
    for ( int s = 0; s != S_COUNT; ++s )
    {
        if ( s == S_ENCRYPTED && !C27_ENC ) continue;
        std::string err;
        if ( !prepare( s, default_params, err ) ) { rep.fail( "harness:state-not-reachable", std::string( state_name( s ) ) + ": " + err, { mc::fmt( "case %d 0 0 0", s ) } ); continue; }
        Image im; im.save();
        for ( unsigned o = 0; o <= 0x1A + ( a.thorough() ? 4u : 1u ); ++o )
        {
            const std::uint8_t op = o <= 0x1A ? std::uint8_t( o ) : extra_opcodes[ o - 0x1B ];
            for ( unsigned len = 0; len <= 27; ++len )
                for ( int pat = 0; pat != 2; ++pat )
                {
                    im.load();
                    verdict v;
                    const std::string g = mc::Guard::call( [&]{ v = run_case( s, op, len, pat, false ); } );
                    ++rep.evaluations; ++rep.traces_validated;
                    const std::string step = mc::fmt( "case %d %u %u %d", s, op, len, pat );
                    if ( !g.empty() ) { rep.fail( "crash:" + g + ":" + opname( op ), "guarded call ended with " + g, { step } ); continue; }
                    if ( !v.sig.empty() ) rep.fail( v.sig, std::string( "state " ) + state_name( s ) + ": " + v.detail, { step } );
                    else rep.cls( std::string( state_name( s ) ) + ": " + v.kind );
                    if ( len == proper_length( op ) && pat == 0 && s <= S_VERSION ) rep.sample( mc::fmt( "%s/%s len %u: %s", state_name( s ), opname( op ), len, v.kind.c_str() ), 8 );
                }
        }
        ++rep.counters[ "prepared states" ];
    }
}

// ---------------------------------------------------------------------------------------------------------------------
// part B: procedure response timeout.  The own request is queued at the end of event E0; elapsed time is counted in
// connection intervals from E0.  The link has to close with 0x22 at the first event (or missed event) at which 40 s have
// passed ( one further interval is tolerated ), never before.
struct timeout_result { std::string sig, detail, kind; };

// miss pattern: 0 = every event received, 1 = every second missed, 2 = two of three missed
timeout_result run_timeout( int s, conn_params p, int miss, int answer_with /* 0 none, 1 proper answer, 2 unrelated request */, bool verbose )
{
    timeout_result r;
    connect( p );
    const std::uint32_t interval = p.interval * 1250u;
    const bool own = s == S_CONN_PARAM || s == S_CONN_PARAM_INITIATING || s == S_VERSION_PENDING;
    if ( own && !start_own_procedure( s ) ) { r.sig = "harness:procedure-not-started"; return r; }
    ll->sim_empty_event();                        // E0
    std::uint64_t elapsed = 0;
    const std::uint64_t limit = std::uint64_t( response_timeout_us ) + 3ull * interval + ( own && answer_with != 1 ? 0 : interval * 8ull );
    unsigned k = 0;
    bool answered = false, unrelated_sent = false;
    while ( alive() && elapsed < limit )
    {
        ++k;
        elapsed += interval;
        const bool missed = miss == 1 ? ( k % 2 == 0 ) : miss == 2 ? ( k % 3 != 1 ) : false;
        if ( missed ) ll->sim_timeout();
        else if ( k >= 4 && answer_with == 1 && !answered )
        {
            if ( s == S_VERSION_PENDING ) ctrl( { VERSION_IND, 0x08, 0x00, 0x02, 0x00, 0x00 } ); else ctrl( { REJECT_EXT_IND, CONNECTION_PARAM_REQ, 0x1a } );
            answered = true;
        }
        else if ( k >= 4 && answer_with == 2 && !unrelated_sent ) { ctrl( { PING_REQ } ); unrelated_sent = true; }
        else ll->sim_empty_event();
    }
    const bool expect_close = own && !answered;
    if ( verbose ) printf( "  %s, interval %u us, miss pattern %d, answer %d: %s after %u events = %.4f s%s\n", state_name( s ), interval, miss, answer_with,
                           alive() ? "open" : "closed", k, elapsed / 1e6, alive() ? "" : mc::fmt( ", reason 0x%02x", rec.reason ).c_str() );
    const std::string cls = std::string( state_name( s ) ) + ( answer_with == 1 ? "/answered" : answer_with == 2 ? "/unrelated-traffic" : "" );
    if ( expect_close )
    {
        if ( alive() ) { r.sig = "response-timeout:connection-not-closed"; r.detail = mc::fmt( "%s: own procedure unanswered for %.3f s, connection still open", cls.c_str(), elapsed / 1e6 ); return r; }
        if ( elapsed < response_timeout_us ) { r.sig = "response-timeout:closed-early"; r.detail = mc::fmt( "%s: closed (reason 0x%02x) after %.4f s of connection events, before the 40 s procedure response timeout", cls.c_str(), rec.reason, elapsed / 1e6 ); return r; }
        if ( rec.reason != 0x22 ) { r.sig = "response-timeout:wrong-reason"; r.detail = mc::fmt( "%s: closed with reason 0x%02x instead of 0x22", cls.c_str(), rec.reason ); return r; }
        if ( elapsed > std::uint64_t( response_timeout_us ) + 2ull * interval * ( miss + 1 ) ) { r.sig = "response-timeout:closed-late"; r.detail = mc::fmt( "%s: closed after %.4f s", cls.c_str(), elapsed / 1e6 ); return r; }
        r.kind = cls + "->closed(0x22) at 40s";
    }
    else
    {
        if ( !alive() ) { r.sig = mc::fmt( "response-timeout:closed-without-unanswered-procedure:%s", answered ? "answered" : "nothing-pending" ); r.detail = mc::fmt( "%s: closed with reason 0x%02x after %.4f s", cls.c_str(), rec.reason, elapsed / 1e6 ); return r; }
        r.kind = cls + "->stays open";
    }
    return r;
}

struct timeout_case { int s; conn_params p; int miss, answer; };

std::vector< timeout_case > timeout_cases( bool thorough )
{
    std::vector< timeout_case > v;
    const conn_params ps[] = { { 0x18, 0x48 }, { 3200, 3200 }, { 800, 1000 }, { 6, 0x0A }, { 0x27, 0x64 } };
    const int np = thorough ? 5 : 3;
    for ( int s : { S_VERSION_PENDING, S_CONN_PARAM, S_CONN_PARAM_INITIATING } )
        for ( int pi = 0; pi != np; ++pi )
            for ( int miss = 0; miss != 3; ++miss )
                for ( int ans = 0; ans != 3; ++ans )
                {
                    if ( ps[ pi ].interval == 6 && ( miss != 0 || ans != 0 ) && !thorough ) continue;
                    v.push_back( { s, ps[ pi ], miss, ans } );
                }
    for ( int pi = 0; pi != np; ++pi ) v.push_back( { S_FRESH, ps[ pi ], 0, 0 } );
    v.push_back( { S_FRESH, ps[ 0 ], 1, 2 } );
    return v;
}

void part_b( const mc::Args& a, mc::Report& rep )
{
    for ( const timeout_case& t : timeout_cases( a.thorough() ) )
    {
        timeout_result r;
        const std::string g = mc::Guard::call( [&]{ r = run_timeout( t.s, t.p, t.miss, t.answer, false ); } );
        ++rep.evaluations; ++rep.traces_validated;
        const std::string step = mc::fmt( "timeout %d %u %u %d %d", t.s, t.p.interval, t.p.timeout, t.miss, t.answer );
        if ( !g.empty() ) { rep.fail( "crash:" + g + ":timeout-run", "guarded call ended with " + g, { step } ); continue; }
        if ( !r.sig.empty() ) rep.fail( r.sig, r.detail, { step } );
        else rep.cls( "timeout: " + r.kind );
        ++rep.counters[ "timeout runs" ];
    }
}

// ---------------------------------------------------------------------------------------------------------------------
// part D: boundary values of parameter carrying requests.  Conservative oracle from the Core ranges only:
//   * LL_CONNECTION_PARAM_REQ whose fields are all inside the Core ranges ( Vol 6 Part B 2.4.2.16: interval 6..3200, min <= max,
//     latency 0..499, timeout 10..3200 and timeout * 10 ms > ( 1 + latency ) * interval_max * 1.25 ms * 2, offsets 0xFFFF or
//     < interval_max, periodicity <= interval_max ) gets the handling a mid range request gets in the same state and is never
//     rejected with "invalid LL parameters" ( 0x1E );
//   * a request with interval_max > 3200, latency > 499 or min > max is not answered with LL_CONNECTION_PARAM_RSP;
//   * LL_PHY_UPDATE_IND with PHYs in { no change, 1M, 2M } is accepted (no answer, link stays open).
// Fields the implementation does not validate against the Core range (see report) are observed and classified, not judged.
struct cpr { std::uint16_t imin, imax, latency, timeout; int extras; };   // extras: 0 none preferred, 1 extremes, 2 largest valid offset

unsigned build_cpr( const cpr& r, std::uint8_t* b )
{
    const std::uint16_t off = r.extras == 0 ? 0xFFFF : r.extras == 1 ? 0x0000 : std::uint16_t( r.imax - 1 );
    const std::uint8_t  per = r.extras == 1 ? std::uint8_t( r.imax < 255 ? r.imax : 255 ) : 0;
    const std::uint16_t ref = r.extras == 1 ? 0xFFFF : r.extras == 2 ? 0x8000 : 0;
    b[ 0 ] = CONNECTION_PARAM_REQ;
    b[ 1 ] = std::uint8_t( r.imin ); b[ 2 ] = std::uint8_t( r.imin >> 8 ); b[ 3 ] = std::uint8_t( r.imax ); b[ 4 ] = std::uint8_t( r.imax >> 8 );
    b[ 5 ] = std::uint8_t( r.latency ); b[ 6 ] = std::uint8_t( r.latency >> 8 ); b[ 7 ] = std::uint8_t( r.timeout ); b[ 8 ] = std::uint8_t( r.timeout >> 8 );
    b[ 9 ] = per; b[ 10 ] = std::uint8_t( ref ); b[ 11 ] = std::uint8_t( ref >> 8 );
    b[ 12 ] = std::uint8_t( off ); b[ 13 ] = std::uint8_t( off >> 8 );
    for ( int i = 14; i != 24; ++i ) b[ i ] = 0xFF;                 // Offset1..5: none
    return 24;
}

bool cpr_in_core_range( const cpr& r )
{
    return r.imin >= 6 && r.imax <= 3200 && r.imin <= r.imax && r.latency <= 499 && r.timeout >= 10 && r.timeout <= 3200
        && std::uint32_t( r.timeout ) * 4u > ( 1u + r.latency ) * r.imax;      // timeout*10ms > (1+latency)*imax*1.25ms*2
}

const cpr mid_range = { 0x18, 0x28, 0, 0x48, 0 };

// 0 other, 1 LL_CONNECTION_PARAM_RSP, 2 reject "invalid LL parameters", 3 other reject, 4 nothing
struct cpr_outcome { int kind; std::string text; bool closed; };

cpr_outcome run_cpr( const cpr& r, bool verbose, int s )
{
    std::uint8_t req[ 32 ];
    build_cpr( r, req );
    ll->sim_ll_control( req, 24 );
    cpr_outcome o{ 4, "-", !alive() };
    if ( !o.closed )
    {
        ll->sim_empty_event();
        const answer a = collect();
        o.closed = !alive();
        o.text = show( a );
        if ( a.n_ctrl == 0 && a.n_data == 0 ) o.kind = 4;
        else if ( a.n_ctrl == 1 && a.len == 24 && a.pdu[ 0 ] == CONNECTION_PARAM_RSP ) o.kind = 1;
        else if ( a.n_ctrl == 1 && a.len == 3 && a.pdu[ 0 ] == REJECT_EXT_IND && a.pdu[ 1 ] == CONNECTION_PARAM_REQ ) o.kind = a.pdu[ 2 ] == 0x1E ? 2 : 3;
        else if ( a.n_ctrl == 1 && a.len == 2 && a.pdu[ 0 ] == REJECT_IND ) o.kind = a.pdu[ 1 ] == 0x1E ? 2 : 3;
        else o.kind = 0;
    }
    if ( verbose ) printf( "  state %s, LL_CONNECTION_PARAM_REQ interval %u..%u latency %u timeout %u extras %d (%s) -> %s%s\n", state_name( s ), r.imin, r.imax, r.latency, r.timeout, r.extras,
                           cpr_in_core_range( r ) ? "inside the Core ranges" : "outside the Core ranges", o.text.c_str(), o.closed ? " closed" : "" );
    return o;
}

const char* outcome_name( int k ) { static const char* n[] = { "other answer", "LL_CONNECTION_PARAM_RSP", "reject(invalid LL parameters)", "reject(other reason)", "no answer" }; return n[ k ]; }

// which single field makes a valid request fail?  ( every field in turn replaced by its mid range value, as long as the
// request stays inside the Core ranges )
std::string cpr_culprit( Image& im, const cpr& r, int baseline, int s )
{
    struct { const char* name; cpr sub; } f[] = {
        { "interval-min", { mid_range.imin < r.imax ? mid_range.imin : r.imin, r.imax, r.latency, r.timeout, r.extras } },
        { "interval-max", { r.imin, r.imin <= mid_range.imax ? mid_range.imax : r.imax, r.latency, r.timeout, r.extras } },
        { "latency",      { r.imin, r.imax, mid_range.latency, r.timeout, r.extras } },
        { "timeout",      { r.imin, r.imax, r.latency, 3200, r.extras } },
        { "periodicity-reference-offsets", { r.imin, r.imax, r.latency, r.timeout, 0 } } };
    for ( auto& x : f )
    {
        const cpr& q = x.sub;
        if ( !cpr_in_core_range( q ) ) continue;
        if ( q.imin == r.imin && q.imax == r.imax && q.latency == r.latency && q.timeout == r.timeout && q.extras == r.extras ) continue;
        im.load();
        if ( run_cpr( q, false, s ).kind == baseline )
        {
            const std::uint16_t v = std::string( x.name ) == "interval-min" ? r.imin : std::string( x.name ) == "interval-max" ? r.imax : std::string( x.name ) == "latency" ? r.latency : r.timeout;
            return std::string( x.name ) + ( std::string( x.name )[ 0 ] == 'p' ? "" : mc::fmt( "-%u", v ) );
        }
    }
    return "combination-of-fields";
}

struct cpr_verdict { std::string sig, detail, kind; };

cpr_verdict judge_cpr( Image& im, const cpr& r, int baseline, int s, bool verbose )
{
    cpr_verdict v;
    im.load();
    const cpr_outcome o = run_cpr( r, verbose, s );
    const std::string what = mc::fmt( "interval %u..%u, latency %u, timeout %u, extras %d -> %s", r.imin, r.imax, r.latency, r.timeout, r.extras, o.text.c_str() );
    if ( o.closed ) { v.sig = "connection-closed-by-control-pdu:connection-param-req"; v.detail = what; return v; }
    if ( cpr_in_core_range( r ) )
    {
        if ( o.kind == 2 || o.kind != baseline )
        {
            v.sig = std::string( o.kind == 2 ? "conn-param-req:valid-request-rejected-as-invalid:" : "conn-param-req:valid-request-handled-differently:" ) + cpr_culprit( im, r, baseline, s );
            v.detail = mc::fmt( "all fields are inside the Core ranges and consistent; a mid range request gets %s, this one %s: ", outcome_name( baseline ), outcome_name( o.kind ) ) + what;
            return v;
        }
        v.kind = std::string( "valid boundary request->" ) + outcome_name( o.kind );
        return v;
    }
    const bool judged_invalid = r.imax > 3200 || r.latency > 499 || r.imin > r.imax;
    if ( judged_invalid )
    {
        if ( o.kind == 1 )
        {
            v.sig = std::string( "conn-param-req:invalid-request-accepted:" ) + ( r.imin > r.imax ? "interval-min-above-max" : r.imax > 3200 ? "interval-max-above-3200" : "latency-above-499" );
            v.detail = "a field outside of its Core range was answered with LL_CONNECTION_PARAM_RSP: " + what;
            return v;
        }
        v.kind = std::string( "invalid request (interval order / interval > 4 s / latency > 499)->" ) + outcome_name( o.kind );
        return v;
    }
    // outside of the Core ranges in a field that is observed only
    const char* why = r.imin < 6 ? "interval below 7.5 ms" : r.timeout < 10 ? "timeout below 100 ms" : r.timeout > 3200 ? "timeout above 32 s" : "timeout not above (1+latency)*interval_max*2";
    v.kind = std::string( "not judged: " ) + why + "->" + outcome_name( o.kind );
    return v;
}

std::vector< cpr > cpr_family()
{
    std::vector< cpr > v;
    const std::uint16_t iv[] = { 5, 6, 3200, 3201 }, lat[] = { 0, 499, 500 };
    for ( std::uint16_t imin : iv ) for ( std::uint16_t imax : iv ) for ( std::uint16_t l : lat )
    {
        std::vector< std::uint16_t > to = { 9, 10, 3200, 3201 };
        const std::uint32_t lim = ( 1u + l ) * imax / 4u;           // largest timeout that is NOT above the limit
        if ( lim >= 9 && lim < 3201 ) { to.push_back( std::uint16_t( lim ) ); to.push_back( std::uint16_t( lim + 1 ) ); }
        for ( std::uint16_t t : to ) for ( int ex = 0; ex != 3; ++ex ) v.push_back( cpr{ imin, imax, l, t, ex } );
    }
    // single boundary around a mid range request
    for ( std::uint16_t l : { 1, 498, 499, 500 } ) v.push_back( cpr{ 6, 6, std::uint16_t( l ), 3200, 0 } );
    for ( std::uint16_t i : { 6, 7, 3199, 3200 } ) v.push_back( cpr{ i, i, 0, 3200, 0 } );
    return v;
}

// the form of a reject follows the negotiated features: LL_REJECT_EXT_IND only if both sides support "Extended Reject
// Indication" (Core Vol 6 Part B 5.1.x "... shall use LL_REJECT_EXT_IND if supported by both devices, LL_REJECT_IND otherwise").
// Prepared states: no feature exchange, and feature exchanges with central feature sets all / without extended reject /
// without connection parameters request / all zero.  Rejected requests: LL_ENC_REQ for an unknown key (enc variant) - judged;
// invalid LL_CONNECTION_PARAM_REQ - observed only (see report).
void reject_forms( mc::Report& rep, const std::string* only, bool verbose, std::string* reproduced )
{
    struct fs { const char* name; int exchange; std::uint8_t set; };
    static const fs sets[] = { { "no-feature-exchange", 0, 0xff }, { "central-supports-all", 1, 0xff }, { "central-lacks-extended-reject", 1, 0xfb },
                               { "central-lacks-conn-param-request", 1, 0xfd }, { "central-supports-nothing", 1, 0x00 } };
    for ( const fs& f : sets )
    {
        for ( int what = 0; what != 2; ++what )     // 0 invalid LL_CONNECTION_PARAM_REQ, 1 LL_ENC_REQ for an unknown key
        {
            if ( what == 1 && !C27_ENC ) continue;
            const std::string step = mc::fmt( "rejectform %s %d", f.name, what );
            if ( only && *only != step ) continue;
            std::string err;
            if ( !prepare( S_FRESH, default_params, err ) ) return;
            std::uint16_t common = supported_features;
            if ( f.exchange )
            {
                ctrl( { FEATURE_REQ, f.set, 0xff, 0, 0, 0, 0, 0, 0 } );
                ll->sim_empty_event();
                const answer a = collect();
                common = std::uint16_t( supported_features & ( f.set | 0xff00 ) );
                if ( !( a.n_ctrl == 1 && a.len == 9 && a.pdu[ 0 ] == FEATURE_RSP && a.pdu[ 1 ] == std::uint8_t( common ) ) )
                { rep.fail( "feature-rsp:not-intersection:common-feature-missing", std::string( f.name ) + ": " + show( a ), { step } ); continue; }
            }
            const bool ext = ( common & F_EXT_REJECT ) != 0;
            std::uint8_t req[ 32 ];
            unsigned len;
            if ( what == 0 ) len = build_cpr( cpr{ 0x28, 0x18, 0, 0x48, 0 }, req );
            else { build_pdu( ENC_REQ, 23, 0, req ); req[ 9 ] = 0xAD; req[ 10 ] = 0xDE; len = 23; }
            ll->sim_ll_control( req, len );
            ll->sim_empty_event();
            // last control PDU of the answer event
            const llw::pdu* last = nullptr;
            for ( unsigned i = 0; i < ll->log.tx_count && i < LLW_MAX_TX_LOG; ++i ) if ( ll->log.tx[ i ].n > 2 && ( ll->log.tx[ i ].d[ 0 ] & 3 ) == 3 ) last = &ll->log.tx[ i ];
            ++rep.evaluations; ++rep.traces_validated;
            const std::uint8_t req_op = what == 0 ? CONNECTION_PARAM_REQ : ENC_REQ;
            const bool is_ext = last && last->n == 5 && last->d[ 2 ] == REJECT_EXT_IND && last->d[ 3 ] == req_op;
            const bool is_old = last && last->n == 4 && last->d[ 2 ] == REJECT_IND;
            const std::string got = last ? mc::hex( last->d + 2, last->n - 2u ) : std::string( "-" );
            if ( verbose ) printf( "  %s, %s -> %s (extended reject indication %s by both)\n", f.name, what ? "LL_ENC_REQ(unknown key)" : "invalid LL_CONNECTION_PARAM_REQ", got.c_str(), ext ? "supported" : "not supported" );
            if ( !is_ext && !is_old ) { rep.fail( "reject-form:request-not-rejected", std::string( f.name ) + ": " + got, { step } ); if ( reproduced ) *reproduced = "reject-form:request-not-rejected"; continue; }
            if ( what == 1 && is_ext != ext )
            {
                const std::string sig = ext ? "reject-form:reject-ind-although-extended-reject-negotiated" : "reject-form:reject-ext-ind-without-negotiated-feature";
                rep.fail( sig, mc::fmt( "%s: LL_ENC_REQ for an unknown key answered %s; extended reject indication is %s by both sides", f.name, got.c_str(), ext ? "supported" : "not supported" ), { step } );
                if ( reproduced ) *reproduced = sig;
                continue;
            }
            rep.cls( mc::fmt( "reject form: %s, %s -> %s%s", f.name, what ? "enc-req(unknown key)" : "invalid conn-param-req", is_ext ? "LL_REJECT_EXT_IND" : "LL_REJECT_IND",
                              what == 0 && is_ext != ext ? " (not judged, differs from the negotiated features)" : "" ) );
        }
    }
}

void part_d( const mc::Args&, mc::Report& rep )
{
    const std::vector< cpr > family = cpr_family();
    for ( int s = 0; s != S_COUNT; ++s )
    {
        if ( s == S_ENCRYPTED && !C27_ENC ) continue;
        std::string err;
        if ( !prepare( s, default_params, err ) ) continue;         // reported by part A
        Image im; im.save();
        const int baseline = run_cpr( mid_range, false, s ).kind;
        rep.cls( std::string( state_name( s ) ) + ": mid range LL_CONNECTION_PARAM_REQ->" + outcome_name( baseline ) );
        for ( const cpr& r : family )
        {
            cpr_verdict v;
            const std::string g = mc::Guard::call( [&]{ v = judge_cpr( im, r, baseline, s, false ); } );
            ++rep.evaluations; ++rep.traces_validated;
            const std::string step = mc::fmt( "cpr %d %u %u %u %u %d", s, r.imin, r.imax, r.latency, r.timeout, r.extras );
            if ( !g.empty() ) { rep.fail( "crash:" + g + ":connection-param-req", "guarded call ended with " + g, { step } ); continue; }
            if ( !v.sig.empty() ) rep.fail( v.sig, std::string( "state " ) + state_name( s ) + ": " + v.detail, { step } );
            else rep.cls( "boundary: " + v.kind );
        }
        // LL_PHY_UPDATE_IND: every combination of { no change, 1M, 2M } has to be accepted
        for ( std::uint8_t c2p = 0; c2p != 3; ++c2p ) for ( std::uint8_t p2c = 0; p2c != 3; ++p2c )
        {
            im.load();
            const std::uint16_t instant = std::uint16_t( ll->connection_event_counter() + 6 );
            const std::uint8_t req[ 5 ] = { PHY_UPDATE_IND, c2p, p2c, std::uint8_t( instant ), std::uint8_t( instant >> 8 ) };
            ll->sim_ll_control( req, 5 );
            answer a; if ( alive() ) { ll->sim_empty_event(); a = collect(); }
            ++rep.evaluations; ++rep.traces_validated;
            if ( !alive() || a.n_ctrl || a.n_data )
                rep.fail( "phy-update-ind:valid-phys-not-accepted", mc::fmt( "state %s: LL_PHY_UPDATE_IND with PHYs %u/%u (no change / 1M / 2M) answered %s%s", state_name( s ), c2p, p2c, show( a ).c_str(), alive() ? "" : ", link closed" ),
                          { mc::fmt( "phy %d %u %u", s, c2p, p2c ) } );
            else rep.cls( "boundary: LL_PHY_UPDATE_IND with valid PHYs->accepted" );
        }
        ++rep.counters[ "boundary families (states)" ];
    }
    rep.counters[ "boundary requests per state" ] = family.size();
    reject_forms( rep, nullptr, false, nullptr );
}

// ---------------------------------------------------------------------------------------------------------------------
// part C: sequences.  Connection interval 4 s, so that the 40 s rule is decided within 12 events of a drain.
struct World
{
    struct Ref
    {
        std::uint8_t  open;                // connection believed to be open
        std::uint8_t  version_answered;    // a received LL_VERSION_IND was answered with LL_VERSION_IND
        std::uint8_t  own_version_sent;    // the peripheral sent LL_VERSION_IND on its own behalf
        std::uint8_t  version_seen;        // a well formed LL_VERSION_IND was received
        std::uint16_t used;                // features still in use (cumulative intersection)
        std::uint8_t  pending;             // 0 none, 1 version exchange, 2 connection parameter request
        std::uint8_t  answered;            // 0 no, 1 yes, 2 the statement does not say
        std::uint8_t  awaiting_instant;    // the pending request was answered by an LL_CONNECTION_UPDATE_IND whose instant is not reached yet
        std::uint64_t elapsed;             // us since the own request was queued
    } ref;

    static constexpr std::uint16_t interval = 3200, supervision = 3200;
    static constexpr std::uint32_t interval_us = interval * 1250u;
    bool start_encrypted = false;

    struct Event { const char* name; int kind; std::uint8_t pdu[ 28 ]; std::uint8_t len; };
    // kind 0 = one control PDU (+ the event that carries the answer), 1 = empty event, 2..4 = API call, 5 = update macro
    std::vector< Event > events;

    void add( const char* n, std::initializer_list< std::uint8_t > l ) { Event e; e.name = n; e.kind = 0; e.len = std::uint8_t( l.size() ); std::memset( e.pdu, 0, sizeof e.pdu ); std::copy( l.begin(), l.end(), e.pdu ); events.push_back( e ); }
    void add_kind( const char* n, int k ) { Event e; e.name = n; e.kind = k; e.len = 0; std::memset( e.pdu, 0, sizeof e.pdu ); events.push_back( e ); }

    World()
    {
        add_kind( "empty event", 1 );
        add( "LL_PING_REQ", { PING_REQ } );
        add( "LL_FEATURE_REQ(all)", { FEATURE_REQ, 0xff, 0xff, 0xff, 0xff, 0xff, 0xff, 0xff, 0xff } );
        add( "LL_FEATURE_REQ(0x11)", { FEATURE_REQ, 0x11, 0, 0, 0, 0, 0, 0, 0 } );
        add( "LL_VERSION_IND(5.0)", { VERSION_IND, 0x09, 0x0f, 0x00, 0x34, 0x12 } );
        add( "LL_VERSION_IND(4.0)", { VERSION_IND, 0x06, 0x0f, 0x00, 0x34, 0x12 } );
        add( "LL_PHY_REQ", { PHY_REQ, 0x03, 0x03 } );
        add( "LL_CONNECTION_PARAM_REQ(valid)", { CONNECTION_PARAM_REQ, 0x18, 0, 0x28, 0, 0, 0, 0x48, 0, 0, 0, 0, 0xff, 0xff, 0xff, 0xff, 0xff, 0xff, 0xff, 0xff, 0xff, 0xff, 0xff, 0xff } );
        add( "LL_CONNECTION_PARAM_REQ(min>max)", { CONNECTION_PARAM_REQ, 0x28, 0, 0x18, 0, 0, 0, 0x48, 0, 0, 0, 0, 0xff, 0xff, 0xff, 0xff, 0xff, 0xff, 0xff, 0xff, 0xff, 0xff, 0xff, 0xff } );
        add( "LL_UNKNOWN_RSP(conn-param-req)", { UNKNOWN_RSP, CONNECTION_PARAM_REQ } );
        add( "LL_UNKNOWN_RSP(version-ind)", { UNKNOWN_RSP, VERSION_IND } );
        add( "LL_REJECT_IND", { REJECT_IND, 0x1a } );
        add( "LL_REJECT_EXT_IND(conn-param-req)", { REJECT_EXT_IND, CONNECTION_PARAM_REQ, 0x1a } );
        add( "LL_REJECT_EXT_IND(version-ind)", { REJECT_EXT_IND, VERSION_IND, 0x1a } );
        add( "undefined opcode 0x1A", { CTE_REQ } );
        add( "LL_PING_REQ with 2 bytes", { PING_REQ, 0x00 } );
        add_kind( "remote_versions_request()", 2 );
        add_kind( "connection_parameter_update_request()", 3 );
        add_kind( "initiating_connection_parameter_request()", 4 );
        add_kind( "LL_CONNECTION_UPDATE_IND(instant+3) and 4 events", 5 );
    }

    void init()
    {
        std::string err;
        prepare( start_encrypted ? S_ENCRYPTED : S_FRESH, conn_params{ interval, supervision }, err );
        std::memset( &ref, 0, sizeof ref );
        ref.open = 1; ref.used = supported_features;
    }
    void regions( mc::Regions& r ) { r.add( ll.raw, sizeof ll.raw ); r.add( rec ); r.add( char_value ); r.add( ref ); }
    int num_events() const { return int( events.size() ); }
    std::string describe( int ev ) const { return events[ ev ].name; }

    const char* pending_name() const { return ref.pending == 1 ? "version-request-pending" : ref.pending == 2 ? "conn-param-request-pending" : "nothing-pending"; }

    // one connection event (empty or with one control PDU); accounts the procedure timer.  false = connection gone / oracle failed
    bool conn_event( const std::uint8_t* p, unsigned n, mc::Ctx& c )
    {
        if ( p ) ll->sim_ll_control( p, n ); else ll->sim_empty_event();
        if ( ref.pending ) ref.elapsed += interval_us;
        if ( !alive() )
        {
            ref.open = 0;
            c.prune = true;
            if ( ref.pending && ref.answered == 0 )
            {
                if ( ref.elapsed < response_timeout_us ) c.fail( "response-timeout:closed-early", mc::fmt( "%s: closed (0x%02x) %.1f s after the request was queued", pending_name(), rec.reason, ref.elapsed / 1e6 ) );
                else if ( rec.reason != 0x22 ) c.fail( "response-timeout:wrong-reason", mc::fmt( "%s: closed with 0x%02x instead of 0x22", pending_name(), rec.reason ) );
                else c.cls( std::string( "timeout: " ) + pending_name() + "->closed(0x22) at 40s" );
            }
            else if ( ref.pending && ref.answered == 2 ) c.cls( "timeout: unspecified answer->closed" );
            else if ( ref.awaiting_instant && rec.reason == 0x22 )
                c.fail( "response-timeout:closed-although-answered:connection-update-ind-before-instant",
                        "the central answered the connection parameter request with LL_CONNECTION_UPDATE_IND in time, the response timer kept running until the instant and closed the link with 0x22" );
            else c.fail( mc::fmt( "response-timeout:closed-without-unanswered-procedure:%s", ref.pending ? "answered" : "nothing-pending" ), mc::fmt( "closed with reason 0x%02x", rec.reason ) );
            return false;
        }
        if ( ref.pending && ref.answered == 0 && ref.elapsed >= std::uint64_t( response_timeout_us ) + 2ull * interval_us )
        {
            c.fail( mc::fmt( "response-timeout:connection-not-closed:%s", pending_name() ), mc::fmt( "own procedure unanswered for %.1f s, connection still open", ref.elapsed / 1e6 ) );
            return false;
        }
        return true;
    }

    // the reference's reaction to a processed, well formed PDU of the central with respect to the own pending procedure
    void ref_answer( const std::uint8_t* p, unsigned n, mc::Ctx& c )
    {
        const std::uint8_t op = p[ 0 ];
        if ( proper_length( op ) != n ) return;
        if ( op == UNKNOWN_RSP && p[ 1 ] == CONNECTION_PARAM_REQ ) ref.used &= ~F_CONN_PARAM;
        if ( op == VERSION_IND && !ref.version_seen && p[ 1 ] <= 0x06 ) ref.used &= ~F_CONN_PARAM;
        if ( op == FEATURE_REQ ) ref.used &= std::uint16_t( p[ 1 ] | ( p[ 2 ] << 8 ) );
        if ( ref.pending == 0 || ref.answered != 0 ) return;
        const bool is_response = op == UNKNOWN_RSP || op == REJECT_IND || op == REJECT_EXT_IND;
        if ( ref.pending == 1 )
        {
            if ( op == VERSION_IND ) ref.answered = ref.version_seen ? 2 : 1;
            else if ( is_response ) ref.answered = 2;    // a reject / unknown response while the version exchange is open: not specified here
        }
        else
        {
            if ( op == REJECT_IND ) ref.answered = 1;
            else if ( ( op == UNKNOWN_RSP || op == REJECT_EXT_IND ) && p[ 1 ] == CONNECTION_PARAM_REQ ) ref.answered = 1;
            else if ( op == CONNECTION_PARAM_RSP ) ref.answered = 2;
        }
        if ( ref.answered == 1 ) { c.cls( std::string( "procedure: " ) + pending_name() + " completed by " + opname( op ) ); ref.pending = 0; ref.answered = 0; ref.elapsed = 0; }
    }

    bool apply( int ev, mc::Ctx& c )
    {
        if ( !ref.open ) return false;
        const Event& e = events[ ev ];
        switch ( e.kind )
        {
        case 1:
            if ( !conn_event( nullptr, 0, c ) ) return true;
            { const answer a = collect(); c.obs = show( a ); if ( a.n_ctrl || a.n_data ) c.fail( "unsolicited-pdu", "PDU transmitted without request: " + show( a ) ); }
            return true;
        case 0:
        {
            const ex x = expectation( e.pdu[ 0 ], e.len, ref.version_answered != 0 || ref.version_seen != 0 /* a repeated LL_VERSION_IND */, ref.own_version_sent != 0 );
            const std::uint16_t used_before = ref.used;
            if ( !conn_event( e.pdu, e.len, c ) ) return true;
            { const answer a0 = collect(); if ( a0.n_ctrl || a0.n_data ) { c.fail( "answer-before-request", show( a0 ) ); return true; } }
            ref_answer( e.pdu, e.len, c );
            if ( e.pdu[ 0 ] == VERSION_IND && e.len == 6 ) ref.version_seen = 1;
            if ( !conn_event( nullptr, 0, c ) ) return true;
            const answer a = collect();
            c.obs = show( a );
            std::uint16_t used_for_judge = used_before;
            if ( e.pdu[ 0 ] == FEATURE_REQ ) used_for_judge = ref.used;
            const verdict v = judge( e.pdu[ 0 ], e.len, e.pdu, x, a, false, 0, used_for_judge );
            if ( !v.sig.empty() ) { c.fail( v.sig, std::string( pending_name() ) + ": " + v.detail ); return true; }
            c.cls( std::string( start_encrypted ? "seq(encrypted): " : "seq: " ) + v.kind );
            if ( start_encrypted && ( a.n_ctrl != 0 ) && !a.encrypted ) c.fail( "answer-sent-unencrypted-on-encrypted-link", show( a ) );
            if ( x == ex::version_ind || ( a.n_ctrl && a.pdu[ 0 ] == VERSION_IND ) ) ref.version_answered = 1;
            return true;
        }
        case 2: case 3: case 4:
        {
            if ( ref.pending ) return false;       // one own procedure at a time (the API documents nothing else)
            if ( e.kind == 2 && ref.own_version_sent ) return false;
            const bool started = e.kind == 2 ? ll->remote_versions_request()
                               : e.kind == 3 ? ll->connection_parameter_update_request( 0x18, 0x28, 0, 0x48 )
                               :               ll->initiating_connection_parameter_request( 0x18, 0x28, 0, 0x48 );
            c.obs = started ? "started" : "refused";
            if ( !conn_event( nullptr, 0, c ) ) return true;            // E0: request gets queued
            { const answer a0 = collect(); if ( a0.n_ctrl || a0.n_data ) { c.fail( "unsolicited-pdu", show( a0 ) ); return true; } }
            if ( started ) { ref.pending = e.kind == 2 ? 1 : 2; ref.answered = 0; ref.elapsed = 0; }
            if ( !conn_event( nullptr, 0, c ) ) return true;            // E1: request on air
            const answer a = collect();
            c.obs += " " + show( a );
            const std::uint8_t want = e.kind == 2 ? VERSION_IND : CONNECTION_PARAM_REQ;
            if ( started && !( a.n_ctrl == 1 && a.n_data == 0 && a.pdu[ 0 ] == want ) ) { c.fail( mc::fmt( "own-request-not-transmitted:%s", opname( want ) ), "API returned true but the request PDU was not sent in the next event: " + show( a ) ); return true; }
            if ( !started && ( a.n_ctrl || a.n_data ) ) { c.fail( "unsolicited-pdu", "API returned false but a PDU was sent: " + show( a ) ); return true; }
            if ( started && e.kind == 2 )
            {
                ref.own_version_sent = 1;
                if ( ref.version_seen ) ref.answered = 2;   // the peer already sent its LL_VERSION_IND and must not send another one
            }
            c.cls( std::string( "api: " ) + e.name + ( started ? " started" : " refused" ) );
            return true;
        }
        case 5:
        {
            const std::uint16_t instant = std::uint16_t( ll->connection_event_counter() + 3 );
            const std::uint8_t p[ 12 ] = { CONNECTION_UPDATE_IND, 1, 0, 0, std::uint8_t( interval ), std::uint8_t( interval >> 8 ), 0, 0, std::uint8_t( supervision ), std::uint8_t( supervision >> 8 ), std::uint8_t( instant ), std::uint8_t( instant >> 8 ) };
            if ( !conn_event( p, 12, c ) ) return true;
            // LL_CONNECTION_UPDATE_IND is the central's answer to a connection parameter request
            if ( ref.pending == 2 && ref.answered == 0 ) { c.cls( "procedure: conn-param-request-pending completed by connection-update-ind" ); ref.pending = 0; ref.elapsed = 0; ref.awaiting_instant = 1; }
            for ( int i = 0; i != 4; ++i )
            {
                if ( !conn_event( nullptr, 0, c ) ) return true;
                const answer a = collect();
                if ( a.n_ctrl || a.n_data ) { c.fail( "instant-pdu:answered:connection-update-ind", show( a ) ); return true; }
            }
            ref.awaiting_instant = 0;
            c.cls( "seq: connection-update-ind applied" );
            return true;
        }
        }
        return false;
    }

    // bounded liveness: idle events until 40 s + 3 intervals passed since the request (or 14 events when nothing is pending)
    void drain( mc::Ctx& c )
    {
        if ( !ref.open ) return;
        const bool expect_close = ref.pending && ref.answered == 0;
        const bool unspecified  = ref.pending && ref.answered == 2;
        // observation of the implementation's timer, only used to name the mechanism in the signature
        const bool timer_stopped = ll->procedure_timeout_.zero();
        const std::string not_closed = std::string( timer_stopped ? "response-timeout:timer-stopped-by-unrelated-pdu:" : "response-timeout:connection-not-closed:" ) + pending_name();
        const std::string why = timer_stopped ? " - the procedure response timer was stopped by a PDU that does not answer the pending request" : "";
        for ( int i = 0; i != 14; ++i )
        {
            mc::Ctx cc;
            const bool open = conn_event( nullptr, 0, cc );
            for ( auto& f : cc.fails )
            {
                if ( f.sig.rfind( "response-timeout:connection-not-closed", 0 ) == 0 ) c.fail( not_closed, f.detail + why );
                else c.fail( f.sig, f.detail );
            }
            for ( auto& k : cc.classes ) c.cls( k );
            if ( !open || !c.fails.empty() ) return;
        }
        if ( expect_close ) c.fail( not_closed, "own procedure unanswered, connection still open after 56 s" + why );
        if ( !expect_close && !unspecified ) c.cls( std::string( "timeout: " ) + pending_name() + "->stays open" );
    }
};

void part_c( const mc::Args& a, mc::Report& rep, bool encrypted, int depth )
{
    static World w;
    w.start_encrypted = encrypted;
    mc::Report r; r.property = "C27"; r.unit = rep.unit;
    explore::Dfs< World > dfs( w, r, a, depth );
    dfs.run();
    rep.states += r.states; rep.transitions += r.transitions; rep.evaluations += r.evaluations; rep.traces_validated += r.traces_validated;
    rep.exhaustive = rep.exhaustive && r.exhaustive;
    rep.max_depth_completed = std::max( rep.max_depth_completed, r.max_depth_completed );
    for ( auto& k : r.classes ) rep.cls( k );
    for ( auto& s : r.samples ) rep.sample( std::string( encrypted ? "encrypted: " : "" ) + s, 12 );
    for ( auto& n : r.notes ) rep.notes[ std::string( encrypted ? "sequences-encrypted " : "sequences " ) + n.first ] = n.second;
    rep.counters[ encrypted ? "sequence tree nodes (encrypted start)" : "sequence tree nodes" ] = r.states;
    for ( auto& v : r.violations )
    {
        std::vector< std::string > t;
        t.push_back( encrypted ? "bfs encrypted" : "bfs plain" );
        for ( auto& l : v.second.trace ) t.push_back( l );
        rep.fail( v.first, v.second.detail, t );
        rep.violations[ v.first ].count += v.second.count - 1;
    }
}

// ---------------------------------------------------------------------------------------------------------------------
int replay( const mc::Args& a, mc::Report& rep )
{
    const mc::ReplayFile rf = mc::read_replay( a.replay );
    if ( rf.steps.empty() ) { printf( "empty replay file\n" ); return 0; }
    const std::string& first = rf.steps[ 0 ];
    if ( first.rfind( "case ", 0 ) == 0 )
    {
        int s; unsigned op, len; int pat;
        if ( sscanf( first.c_str(), "case %d %u %u %d", &s, &op, &len, &pat ) != 4 ) return 0;
        std::string err;
        if ( !prepare( s, default_params, err ) ) { printf( "state %s not reachable: %s\n", state_name( s ), err.c_str() ); return rf.sig == "harness:state-not-reachable"; }
        const verdict v = run_case( s, std::uint8_t( op ), len, pat, true );
        printf( "%s %s\n", v.sig.empty() ? "ok" : v.sig.c_str(), v.detail.c_str() );
        if ( v.sig == rf.sig ) { printf( "REPRODUCED %s\n", rf.sig.c_str() ); return 1; }
        printf( "not reproduced\n" ); return 0;
    }
    if ( first.rfind( "cpr ", 0 ) == 0 )
    {
        int st, ex; unsigned imin, imax, lat, to;
        if ( sscanf( first.c_str(), "cpr %d %u %u %u %u %d", &st, &imin, &imax, &lat, &to, &ex ) != 6 ) return 0;
        std::string err;
        if ( !prepare( st, default_params, err ) ) { printf( "state not reachable: %s\n", err.c_str() ); return 0; }
        Image im; im.save();
        const int baseline = run_cpr( mid_range, true, st ).kind;
        const cpr_verdict v = judge_cpr( im, cpr{ std::uint16_t( imin ), std::uint16_t( imax ), std::uint16_t( lat ), std::uint16_t( to ), ex }, baseline, st, true );
        printf( "%s %s\n", v.sig.empty() ? "ok" : v.sig.c_str(), v.detail.c_str() );
        if ( v.sig == rf.sig ) { printf( "REPRODUCED %s\n", rf.sig.c_str() ); return 1; }
        printf( "not reproduced\n" ); return 0;
    }
    if ( first.rfind( "rejectform ", 0 ) == 0 )
    {
        std::string got;
        mc::Report scratch;
        reject_forms( scratch, &first, true, &got );
        if ( got == rf.sig ) { printf( "REPRODUCED %s\n", rf.sig.c_str() ); return 1; }
        printf( "not reproduced\n" ); return 0;
    }
    if ( first.rfind( "phy ", 0 ) == 0 )
    {
        int st; unsigned c2p, p2c;
        if ( sscanf( first.c_str(), "phy %d %u %u", &st, &c2p, &p2c ) != 3 ) return 0;
        std::string err;
        if ( !prepare( st, default_params, err ) ) return 0;
        const std::uint16_t instant = std::uint16_t( ll->connection_event_counter() + 6 );
        const std::uint8_t req[ 5 ] = { PHY_UPDATE_IND, std::uint8_t( c2p ), std::uint8_t( p2c ), std::uint8_t( instant ), std::uint8_t( instant >> 8 ) };
        ll->sim_ll_control( req, 5 );
        answer a; if ( alive() ) { ll->sim_empty_event(); a = collect(); }
        printf( "  LL_PHY_UPDATE_IND %u/%u -> %s%s\n", c2p, p2c, show( a ).c_str(), alive() ? "" : " closed" );
        if ( ( !alive() || a.n_ctrl || a.n_data ) && rf.sig == "phy-update-ind:valid-phys-not-accepted" ) { printf( "REPRODUCED %s\n", rf.sig.c_str() ); return 1; }
        printf( "not reproduced\n" ); return 0;
    }
    if ( first.rfind( "timeout ", 0 ) == 0 )
    {
        int s, miss, ans; unsigned iv, to;
        if ( sscanf( first.c_str(), "timeout %d %u %u %d %d", &s, &iv, &to, &miss, &ans ) != 5 ) return 0;
        const timeout_result r = run_timeout( s, conn_params{ std::uint16_t( iv ), std::uint16_t( to ) }, miss, ans, true );
        printf( "%s %s\n", r.sig.empty() ? "ok" : r.sig.c_str(), r.detail.c_str() );
        if ( r.sig == rf.sig ) { printf( "REPRODUCED %s\n", rf.sig.c_str() ); return 1; }
        printf( "not reproduced\n" ); return 0;
    }
    if ( first.rfind( "bfs ", 0 ) == 0 )
    {
        static World w;
        w.start_encrypted = first == "bfs encrypted";
        mc::BfsOptions o; o.with_drain = true;
        mc::Bfs< World > bfs( w, rep, a, o );
        mc::ReplayFile rest = rf; rest.steps.erase( rest.steps.begin() );
        return bfs.replay_file( rest );
    }
    printf( "unknown replay format\n" );
    return 0;
}

} // namespace

int main( int argc, char** argv )
{
    mc::Args a = mc::parse_args( argc, argv );
    mc::Report rep; rep.property = "C27";
    rep.unit = a.opt.count( "unit" ) ? a.opt[ "unit" ] : ( C27_ENC ? "C27_ll_control-enc" : "C27_ll_control-plain" );
    if ( !a.replay.empty() ) return replay( a, rep );

    connect( default_params );      // cross check of the harness' own feature table against the public accessor
    if ( ll->supported_link_layer_features() != supported_features )
        rep.fail( "supported-features-differ-from-documented-set", mc::fmt( "link layer reports 0x%llx, documented options give 0x%x", (unsigned long long)ll->supported_link_layer_features(), supported_features ), { "case 0 8 9 0" } );

    part_a( a, rep );
    part_b( a, rep );
    part_d( a, rep );
    const int depth = int( a.num( "depth", a.thorough() ? 5 : 4 ) );
    part_c( a, rep, false, depth );
    if ( C27_ENC ) part_c( a, rep, true, depth - 1 );
    rep.notes[ "bound" ] = mc::fmt( "part A: all opcodes 0x00..0x1A,0xFF%s x length 0..27 x 2 payload patterns x %d states; part B: %zu timeout runs; part D: %zu boundary value LL_CONNECTION_PARAM_REQ (interval {5,6,3200,3201}^2 x latency {0,499,500} x timeout {9,10,3200,3201, limit, limit+1} x 3 settings of periodicity/reference/offsets) + 9 LL_PHY_UPDATE_IND per state; part C: all sequences of %d events up to depth %d + drain from every state",
                                    a.thorough() ? ",0x1B,0x25,0x80" : "", C27_ENC ? 6 : 5, timeout_cases( a.thorough() ).size(), cpr_family().size(), World().num_events(), depth );
    rep.write( a );
    return 0;
}
