// C25 (connection half) - while advertising, a connection is entered only for a correctly sized CONNECT_IND addressed to
// the own address and address type, (directed advertising:) coming from the target, from an initiator that passes the
// connection filter.
// E2: exhaustive product over received advertising channel PDUs x run-time configurations on the real link_layer<>
// (shared POD radio).  One executable per compile-time configuration ( -DC25_CFG=n ).
//
// The scan request half of the property is decided by the radio binding, see C25_scan_nrf52.cpp.
#include "../mc/mc.hpp"
#include "ll_world.hpp"
#include <bluetoe/server.hpp>
#include <bluetoe/service.hpp>
#include <bluetoe/characteristic.hpp>

#ifndef C25_CFG
#define C25_CFG 1
#endif

namespace {

namespace bll = bluetoe::link_layer;
using bll::device_address;

std::uint8_t char_value = 0;

using server_t = bluetoe::server<
    bluetoe::service<
        bluetoe::service_uuid16< 0x1815 >,
        bluetoe::characteristic<
            bluetoe::characteristic_uuid16< 0x2a56 >,
            bluetoe::bind_characteristic_value< std::uint8_t, &char_value > > > >;

// observation through the documented callback interface
struct callbacks_t
{
    unsigned       requested;
    std::uint8_t   remote[ 6 ]; std::uint8_t remote_random;
    std::uint8_t   local[ 6 ];  std::uint8_t local_random;

    template < typename ConnectionData >
    void ll_connection_requested( const bll::connection_details&, const bll::connection_addresses& a, ConnectionData& )
    {
        ++requested;
        std::copy( a.remote_address().begin(), a.remote_address().end(), remote ); remote_random = a.remote_address().is_random();
        std::copy( a.local_address().begin(), a.local_address().end(), local );   local_random  = a.local_address().is_random();
    }
} callbacks;

using cb_option = bll::connection_callbacks< callbacks_t, callbacks >;

template < class... O > using ll = bll::link_layer< server_t, llw::radio, cb_option, O... >;

enum adv_kind { undirected, directed, scannable, nonconn };
const char* const kind_name[] = { "undirected", "directed", "scannable", "nonconn" };

struct cfg
{
#if C25_CFG == 1
    using type = ll< bll::white_list< 8 > >;                                                // default type, software white list
    static constexpr bool has_list = true, multi = false; static constexpr adv_kind kind = undirected;
#elif C25_CFG == 2
    using type = ll< bll::connectable_undirected_advertising, bll::white_list< 2 > >;       // white list kept by the radio (llw::radio model)
    static constexpr bool has_list = true, multi = false; static constexpr adv_kind kind = undirected;
#elif C25_CFG == 3
    using type = ll< bll::connectable_directed_advertising, bll::white_list< 8 > >;
    static constexpr bool has_list = true, multi = false; static constexpr adv_kind kind = directed;
#elif C25_CFG == 4
    using type = ll< bll::scannable_undirected_advertising, bll::white_list< 8 > >;
    static constexpr bool has_list = true, multi = false; static constexpr adv_kind kind = scannable;
#elif C25_CFG == 5
    using type = ll< bll::non_connectable_undirected_advertising, bll::white_list< 8 > >;
    static constexpr bool has_list = true, multi = false; static constexpr adv_kind kind = nonconn;
#elif C25_CFG == 6
    using type = ll< bll::connectable_undirected_advertising, bll::connectable_directed_advertising,
                     bll::scannable_undirected_advertising, bll::non_connectable_undirected_advertising, bll::white_list< 8 > >;
    static constexpr bool has_list = true, multi = true; static constexpr adv_kind kind = undirected;
#elif C25_CFG == 7
    using type = ll<>;                                                                      // all defaults: no white list
    static constexpr bool has_list = false, multi = false; static constexpr adv_kind kind = undirected;
#else
#error unknown C25_CFG
#endif
};

using ll_t = cfg::type;

// ---- optional members ------------------------------------------------------------------------------------------------
template < class L > auto set_target( L& l, const device_address& a, int ) -> decltype( l.directed_advertising_address( a ), void() ) { l.directed_advertising_address( a ); }
template < class L > void set_target( L&, const device_address&, long ) {}
template < class L > auto add_wl( L& l, const device_address& a, int ) -> decltype( l.add_to_white_list( a ), void() ) { l.add_to_white_list( a ); }
template < class L > void add_wl( L&, const device_address&, long ) {}
template < class L > auto conn_filter( L& l, bool b, int ) -> decltype( l.connection_request_filter( b ), void() ) { l.connection_request_filter( b ); }
template < class L > void conn_filter( L&, bool, long ) {}
template < class L > auto scan_filter( L& l, bool b, int ) -> decltype( l.scan_request_filter( b ), void() ) { l.scan_request_filter( b ); }
template < class L > void scan_filter( L&, bool, long ) {}
template < class T, class L > auto select_type( L& l, int ) -> decltype( l.template change_advertising< T >(), void() ) { l.template change_advertising< T >(); }
template < class T, class L > void select_type( L&, long ) {}

// ---- alphabets -------------------------------------------------------------------------------------------------------
const std::uint8_t addr_w[ 6 ] = { 0x3c, 0x1c, 0x62, 0x92, 0xf0, 0x48 };   // white listed as random address
const std::uint8_t addr_u[ 6 ] = { 0x11, 0x22, 0x33, 0x44, 0x55, 0xc6 };   // never listed
const std::uint8_t addr_p[ 6 ] = { 0x00, 0x00, 0x00, 0x01, 0x0f, 0xc0 };   // the directed peer
const std::uint8_t addr_q[ 6 ] = { 0x00, 0x00, 0x00, 0x01, 0x0f, 0xc1 };   // the directed peer, one bit off
const std::uint8_t public_own[ 6 ] = { 0x0a, 0x0b, 0x0c, 0x0d, 0x0e, 0x0f };
const std::uint8_t* const init_addr[ 4 ] = { addr_w, addr_u, addr_p, addr_q };
const char* const init_name[ 4 ] = { "W", "U", "P", "P^1" };

const unsigned len_fields[] = { 0, 11, 12, 13, 33, 34, 35, 37 };
const unsigned flag_bits[]  = { 0x00, 0x10, 0x20 };                        // RFU / ChSel bits of the first header octet: to be ignored
enum { size_modes = 6 };                                                   // reported size: 0, 2, 14, 35, 36, min( 36, length field + 2 )

struct RunCfg
{
    bool      own_public;
    int       filter;       // 0: connection filter off (scan filter on), list { W }; 1: connection filter on, list { W }; 2: on, list { W, P }
    int       target;       // directed: 0 = P public, 1 = P random, 2 = P random set, then cleared while the advertisement is pending,
                            //           3 = never set (the link layer must not advertise at all)
    adv_kind  kind;         // advertising type selected before run(): the type of the PDU that is on air when the answer arrives
    int       switch_to;    // multi-type advertiser: -1 or the type selected by change_advertising<>() *after* the PDU was scheduled and
                            // before the answer arrives (documented to take effect with the next advertising PDU only)

    std::string name() const
    {
        return mc::fmt( "type=%s own=%s filter=%d target=%d", kind_name[ kind ], own_public ? "public" : "random", filter, target )
             + ( switch_to >= 0 ? mc::fmt( " then-change_advertising<%s>", kind_name[ switch_to ] ) : std::string() );
    }
};

struct Pdu
{
    unsigned type, flags, len_field, size_mode, adva, rxadd, txadd, inita;

    unsigned size() const
    {
        static const unsigned s[] = { 0, 2, 14, 35, 36 };
        return size_mode < 5 ? s[ size_mode ] : std::min( 36u, len_field + 2 );
    }
    std::string text() const
    {
        return mc::fmt( "type=%u flags=%u len=%u sizemode=%u adva=%u rxadd=%u txadd=%u inita=%u", type, flags, len_field, size_mode, adva, rxadd, txadd, inita );
    }
};

struct World
{
    mc::Placed< ll_t > dut;
    std::uint8_t       snap_dut[ sizeof( ll_t ) ];
    callbacks_t        snap_cb;
    RunCfg             rc;
    std::uint8_t       own[ 6 ]; bool own_random;
    bool               advertising_expected;      // false: directed advertising without a target never advertises
    adv_kind           air_kind;                  // advertising type of the PDU handed to the radio, read from its PDU type
    bool               air_kind_known;
    std::uint8_t*      rx[ 37 ];                  // exact size heap blocks, one per reported size

    World() { for ( unsigned n = 0; n != 37; ++n ) rx[ n ] = n ? new std::uint8_t[ n ] : nullptr; }

    device_address peer() const { return device_address( addr_p, rc.target != 0 ); }
    bool           expect_advertising() const { return !( rc.kind == directed && rc.target == 3 ); }

    bool listed( const std::uint8_t* a, bool random ) const
    {
        if ( !cfg::has_list ) return false;
        if ( std::equal( a, a + 6, addr_w ) && random ) return true;
        if ( rc.filter == 2 && device_address( a, random ) == peer() ) return true;
        return false;
    }

    // returns false if this run-time configuration does not exist for the compile-time configuration
    bool prepare( const RunCfg& r )
    {
        rc = r;
        if ( !cfg::multi && r.kind != cfg::kind ) return false;
        if ( r.kind != directed && r.target != 0 ) return false;
        if ( !cfg::has_list && r.filter != 0 ) return false;
        if ( r.switch_to >= 0 && ( !cfg::multi || r.switch_to == int( r.kind ) || r.target != 0 ) ) return false;

        dut.construct();
        memset( &callbacks, 0, sizeof callbacks );
        ll_t& l = dut.get();

        if ( r.own_public ) l.local_address( bll::public_device_address( public_own ) );
        std::copy( l.local_address().begin(), l.local_address().end(), own ); own_random = l.local_address().is_random();

        add_wl( l, bll::random_device_address( addr_w ), 0 );
        if ( r.filter == 2 ) add_wl( l, peer(), 0 );
        conn_filter( l, r.filter != 0, 0 );
        scan_filter( l, r.filter == 0, 0 );           // must not influence connection requests

        if ( cfg::multi )
        {
            if ( r.kind == directed )  select_type< bll::connectable_directed_advertising >( l, 0 );
            if ( r.kind == scannable ) select_type< bll::scannable_undirected_advertising >( l, 0 );
            if ( r.kind == nonconn )   select_type< bll::non_connectable_undirected_advertising >( l, 0 );
        }
        if ( ( r.kind == directed && r.target != 3 ) || r.switch_to == int( directed ) ) set_target( l, peer(), 0 );

        l.run();
        advertising_expected = l.log.adv_count == 1;

        // the advertising type that decides about requests is the one of the PDU that is on air
        air_kind = r.kind; air_kind_known = true;
        if ( advertising_expected )
        {
            switch ( l.log.adv_data[ 0 ] & 0x0f )
            {
            case 0:  air_kind = undirected; break;
            case 1:  air_kind = directed;   break;
            case 6:  air_kind = scannable;  break;
            case 2:  air_kind = nonconn;    break;
            default: air_kind_known = false;
            }
        }
        if ( cfg::multi && r.switch_to >= 0 )
        {
            if ( r.switch_to == int( undirected ) ) select_type< bll::connectable_undirected_advertising >( l, 0 );
            if ( r.switch_to == int( directed ) )   select_type< bll::connectable_directed_advertising >( l, 0 );
            if ( r.switch_to == int( scannable ) )  select_type< bll::scannable_undirected_advertising >( l, 0 );
            if ( r.switch_to == int( nonconn ) )    select_type< bll::non_connectable_undirected_advertising >( l, 0 );
        }
        if ( r.kind == directed && r.target == 2 ) set_target( l, device_address(), 0 );   // target withdrawn, PDU still in the radio

        l.log.adv_count = 0; l.log.access_count = 0;
        memcpy( snap_dut, dut.raw, sizeof snap_dut );
        snap_cb = callbacks;
        return true;
    }

    void build( const Pdu& p, std::uint8_t* out ) const
    {
        llw::connect_ind ci;                            // valid timing, channel map and hop
        std::uint8_t adv[ 8 ] = { 0 };
        ci.build( out, adv );
        out[ 0 ] = std::uint8_t( p.type | p.flags | ( p.txadd ? 0x40 : 0 ) | ( p.rxadd ? 0x80 : 0 ) );
        out[ 1 ] = std::uint8_t( p.len_field );
        std::copy( init_addr[ p.inita ], init_addr[ p.inita ] + 6, out + 2 );
        std::copy( own, own + 6, out + 8 );
        if ( p.adva == 1 ) out[ 8 ]  ^= 0x01;
        if ( p.adva == 2 ) out[ 13 ] ^= 0x80;
    }

    // "" = the reference accepts the request as a connection request, otherwise the first reason to ignore it
    const char* reference( const Pdu& p ) const { return reference( p, air_kind ); }

    const char* reference( const Pdu& p, adv_kind kind ) const
    {
        if ( p.type != 5 )                                   return "wrong-pdu-type";
        if ( p.len_field != 34 )                             return "wrong-length-field";
        if ( p.size() != 36 )                                return "wrong-size";
        if ( p.adva != 0 )                                   return "adva-mismatch";
        if ( ( p.rxadd != 0 ) != own_random )                return "rxadd-is-not-own-address-type";
        if ( kind == scannable || kind == nonconn )          return "advertising-type-not-connectable";
        if ( kind == directed )
        {
            if ( rc.target == 2 )                            return "no-directed-target";
            if ( p.inita != 2 )                              return "inita-is-not-the-directed-target";
            if ( ( p.txadd != 0 ) != ( rc.target == 1 ) )    return "txadd-is-not-the-target-address-type";
        }
        if ( rc.filter != 0 && !listed( init_addr[ p.inita ], p.txadd != 0 ) )
            return std::equal( addr_w, addr_w + 6, init_addr[ p.inita ] ) ? "filtered-out:listed-with-other-address-type" : "filtered-out";
        return "";
    }

    struct Result
    {
        std::vector< std::pair< std::string, std::string > > fails;
        const char* why;        // reference: "" = connect
        bool        entered;
        unsigned    requested, ce, access, adv;
        std::string obs() const { return mc::fmt( "requested=%u connection_events=%u access=%u adv=%u", requested, ce, access, adv ); }
    };

    // hot path: no strings unless something fails
    Result evaluate( const Pdu& p )
    {
        Result res;
        memcpy( dut.raw, snap_dut, sizeof snap_dut );
        callbacks = snap_cb;
        ll_t& l = dut.get();

        std::uint8_t pdu[ 40 ];
        build( p, pdu );
        const unsigned n = p.size();
        if ( n ) memcpy( rx[ n ], pdu, n );

        const std::string crash = mc::Guard::call( [&]{ l.adv_received( bll::read_buffer{ rx[ n ], n } ); } );
        const char* const why = reference( p );
        const bool expect = why[ 0 ] == 0;
        const bool entered = callbacks.requested != 0 || l.log.ce_count != 0;
        res.why = why; res.entered = entered;
        res.requested = callbacks.requested; res.ce = l.log.ce_count; res.access = l.log.access_count; res.adv = l.log.adv_count;

        if ( !crash.empty() )
        {
            res.fails.push_back( { "memory:" + crash + ( n < 36 ? ":short-pdu" : ":full-size-pdu" ), "adv_received() " + crash + " for " + p.text() } );
            return res;
        }
        // the application selected another advertising type while the PDU was on air and the link layer decided as if
        // that type had been transmitted: one mechanism, own signatures
        const bool by_later_type = rc.switch_to >= 0 && entered != expect && ( reference( p, adv_kind( rc.switch_to ) )[ 0 ] == 0 ) == entered;
        if ( entered && !expect )
            res.fails.push_back( { by_later_type ? std::string( "connect:entered-for-pdu-on-air:decided-by-type-selected-afterwards" )
                                                 : mc::fmt( "connect:entered-but-reference-rejects:%s", why ),
                                   "connection entered for " + p.text() + " [" + rc.name() + "] " + res.obs() } );
        else if ( !entered && expect )
            res.fails.push_back( { by_later_type ? std::string( "connect:valid-request-ignored:decided-by-type-selected-afterwards" )
                                                 : mc::fmt( "connect:valid-request-ignored:%s:filter-%s", kind_name[ air_kind ], rc.filter ? "on" : "off" ),
                                   "no connection for " + p.text() + " [" + rc.name() + "] " + res.obs() } );
        else if ( entered )
        {
            if ( callbacks.requested != 1 || l.log.ce_count != 1 || l.log.access_count != 1 )
                res.fails.push_back( { "connect:inconsistent-entry", "callback / schedule_connection_event / set_access_address not called exactly once: " + res.obs() } );
            else if ( !std::equal( callbacks.remote, callbacks.remote + 6, init_addr[ p.inita ] ) || ( callbacks.remote_random != 0 ) != ( p.txadd != 0 ) )
                res.fails.push_back( { "connect:remote-address-misreported", "ll_connection_requested reports " + mc::hex( callbacks.remote, 6 ) + mc::fmt( " random=%u for ", callbacks.remote_random ) + p.text() } );
            else if ( !std::equal( callbacks.local, callbacks.local + 6, own ) || ( callbacks.local_random != 0 ) != own_random )
                res.fails.push_back( { "connect:local-address-misreported", "ll_connection_requested reports local " + mc::hex( callbacks.local, 6 ) } );
            else if ( l.log.adv_count != 0 )
                res.fails.push_back( { "connect:advertising-continues", "an advertisement was scheduled although a connection was entered" } );
        }
        else
        {
            // the request is ignored: advertising goes on (pinned by still_advertising_after_an_invalid_pdu); the only
            // exception is directed advertising whose target was withdrawn: nothing left to advertise
            const unsigned want = ( rc.kind == directed && rc.target == 2 ) ? 0u : 1u;
            if ( l.log.adv_count != want )
                res.fails.push_back( { "ignore:advertising-not-continued", mc::fmt( "%u advertisements scheduled after ignoring ", unsigned( l.log.adv_count ) ) + p.text() + " [" + rc.name() + "]" } );
        }
        return res;
    }

    std::string cls( const Result& r ) const
    {
        return mc::fmt( "%s%s own-%s filter%d: %s", kind_name[ air_kind ], rc.switch_to >= 0 ? mc::fmt( "->%s", kind_name[ rc.switch_to ] ).c_str() : "",
                        own_random ? "random" : "public", rc.filter, r.why[ 0 ] ? r.why : "connect" );
    }
};

World world;

std::vector< RunCfg > run_cfgs()
{
    std::vector< RunCfg > r;
    for ( int kind = 0; kind != 4; ++kind )
        for ( int own_public = 0; own_public != 2; ++own_public )
            for ( int filter = 0; filter != 3; ++filter )
                for ( int target = 0; target != 4; ++target )
                    r.push_back( RunCfg{ own_public != 0, filter, target, adv_kind( kind ), -1 } );
    // multi-type advertiser: every ordered pair ( type on air, type selected afterwards )
    for ( int kind = 0; kind != 4; ++kind )
        for ( int later = 0; later != 4; ++later )
            for ( int own_public = 0; own_public != 2; ++own_public )
                for ( int filter = 0; filter != 2; ++filter )
                    r.push_back( RunCfg{ own_public != 0, filter, 0, adv_kind( kind ), later } );
    return r;
}

std::string step_line( const RunCfg& rc, const Pdu& p )
{
    return mc::fmt( "kind=%d own_public=%d filter=%d target=%d switch_to=%d | ", int( rc.kind ), int( rc.own_public ), rc.filter, rc.target, rc.switch_to ) + p.text();
}

int replay( const mc::Args& a )
{
    const mc::ReplayFile rf = mc::read_replay( a.replay );
    int rcode = 0;
    for ( auto& s : rf.steps )
    {
        int kind, own_public; RunCfg rc; Pdu p;
        if ( sscanf( s.c_str(), "kind=%d own_public=%d filter=%d target=%d switch_to=%d | type=%u flags=%u len=%u sizemode=%u adva=%u rxadd=%u txadd=%u inita=%u",
                     &kind, &own_public, &rc.filter, &rc.target, &rc.switch_to, &p.type, &p.flags, &p.len_field, &p.size_mode, &p.adva, &p.rxadd, &p.txadd, &p.inita ) != 13 )
        { printf( "cannot parse step: %s\n", s.c_str() ); return 2; }
        rc.kind = adv_kind( kind ); rc.own_public = own_public != 0;
        if ( !world.prepare( rc ) ) { printf( "configuration %s does not exist in this unit\n", rc.name().c_str() ); return 2; }
        std::uint8_t pdu[ 40 ]; world.build( p, pdu );
        printf( "configuration: %s, own address %s (%s), advertising PDU on air: %s\n", rc.name().c_str(), mc::hex( world.own, 6 ).c_str(), world.own_random ? "random" : "public",
                mc::hex( world.dut->log.adv_data, 8 ).c_str() );
        printf( "received PDU (%u of 36 octets reported): %s\n", p.size(), mc::hex( pdu, 36 ).c_str() );
        auto res = world.evaluate( p );
        const char* why = world.reference( p );
        printf( "reference: %s\nobserved:  %s\n", why[ 0 ] ? why : "connect", res.obs().c_str() );
        for ( auto& f : res.fails )
        {
            printf( "FAIL %s: %s\n", f.first.c_str(), f.second.c_str() );
            if ( f.first == rf.sig ) { printf( "REPRODUCED %s\n", rf.sig.c_str() ); rcode = 1; }
        }
    }
    if ( !rcode ) printf( "not reproduced\n" );
    return rcode;
}

} // namespace

int main( int argc, char** argv )
{
    mc::Args a = mc::parse_args( argc, argv );
    mc::Report rep; rep.property = "C25";
    rep.unit = a.opt.count( "unit" ) ? a.opt[ "unit" ] : mc::fmt( "C25_connect_ll-cfg%d", C25_CFG );
    if ( !a.replay.empty() ) return replay( a );

    // --part base | switch splits the run-time configurations of the multi-type advertiser over two executables
    const std::string part = a.opt.count( "part" ) ? a.opt[ "part" ] : std::string();
    std::uint64_t accepted = 0, configs = 0;
    bool cut = false;
    for ( const RunCfg& rc : run_cfgs() )
    {
        if ( part == "base" && rc.switch_to >= 0 ) continue;
        if ( part == "switch" && rc.switch_to < 0 ) continue;
        if ( !world.prepare( rc ) ) continue;
        ++configs;
        if ( world.advertising_expected && ( !world.air_kind_known || world.air_kind != rc.kind ) )
        {
            rep.fail( "advertising-type:pdu-on-air-is-not-the-selected-type", rc.name() + mc::fmt( ": PDU type %u transmitted", unsigned( world.dut->log.adv_data[ 0 ] & 0x0f ) ), { step_line( rc, Pdu{} ) } );
            continue;
        }
        if ( world.advertising_expected != world.expect_advertising() )
        {
            rep.fail( world.advertising_expected ? "directed:advertising-without-target" : "setup:not-advertising", rc.name(), { step_line( rc, Pdu{} ) } );
            continue;
        }
        if ( !world.advertising_expected )
        {
            // nothing is transmitted, so nothing can be received or answered
            rep.cls( "directed without target: run() schedules no advertisement" ); ++rep.evaluations;
            continue;
        }
        std::set< const char* > seen_why;     // string literals of reference(): one class per (configuration, reason)
        Pdu p;
        for ( p.type = 0; p.type != 16 && !cut; ++p.type )
        for ( unsigned f = 0; f != 3; ++f )
        for ( unsigned li = 0; li != 8; ++li )
        for ( p.size_mode = 0; p.size_mode != size_modes; ++p.size_mode )
        for ( p.adva = 0; p.adva != 3; ++p.adva )
        for ( p.rxadd = 0; p.rxadd != 2; ++p.rxadd )
        for ( p.txadd = 0; p.txadd != 2; ++p.txadd )
        for ( p.inita = 0; p.inita != 4; ++p.inita )
        {
            p.flags = flag_bits[ f ]; p.len_field = len_fields[ li ];
            auto res = world.evaluate( p );
            ++rep.evaluations; ++rep.traces_validated;
            if ( seen_why.insert( res.why ).second ) rep.cls( world.cls( res ) );
            if ( res.why[ 0 ] == 0 )
            {
                ++accepted;
                if ( accepted % 97 == 1 ) rep.sample( rc.name() + " | " + p.text() + " => " + res.obs(), 8 );
            }
            for ( auto& fl : res.fails )
            {
                // determinism: the same case has to fail the same way a second time
                auto again = world.evaluate( p );
                bool same = false;
                for ( auto& g : again.fails ) same = same || g.first == fl.first;
                if ( !same ) { fprintf( stderr, "NONDETERMINISM: %s not reproduced\n", fl.first.c_str() ); return 2; }
                rep.fail( fl.first, fl.second, { step_line( rc, p ) } );
            }
        }
        if ( a.expired() ) { cut = true; break; }
    }
    rep.counters[ "run-time configurations" ] = configs;
    rep.counters[ "reference accepts" ] = accepted;
    rep.counters[ "sizeof link_layer" ] = sizeof( ll_t );
    if ( cut ) { rep.exhaustive = false; rep.notes[ "cut" ] = "deadline hit, not all run-time configurations evaluated"; }
    rep.notes[ "alphabet" ] = "PDU type 0..15 x header flag bits {0,0x10,0x20} x length field {0,11,12,13,33,34,35,37} x reported size {0,2,14,35,36,min(36,len+2)} x "
                              "AdvA {own, bit 0 off, bit 47 off} x RxAdd x TxAdd x InitA {W listed(random), U unlisted, P directed peer, P one bit off}; LLData always valid";
    rep.write( a );
    return 0;
}
