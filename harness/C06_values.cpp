// C06 - reads and writes follow the attribute value semantics.
//
// E1: explicit-state BFS over the real server<> + connection + all bound memory (one guarded arena = one linker
// section) per value kind x permission option, against a reference byte-array model.
//   C06_GROUP 0..3 : bind_characteristic_value< uint8_t | uint32_t | uint8_t[20] | uint8_t[30] > x 6 permission sets
//   C06_GROUP 4    : const bound value, fixed_uint8/16/32_value, cstring_value, fixed_blob_value x {-, no_read_access}
//   C06_GROUP 5    : free_read/raw_write handlers, free_read_blob/write_blob handlers, read-only, write-only and typed
//                    write handler x permission sets
//   C06_GROUP 11   : bind_characteristic_value< uint8_t[300] > (offsets >= 256 are valid)
//   (C06_GROUP 0..10 split these for parallel compilation); every configuration is explored with MTU 23 and MTU 65
//   (server max_mtu_size<65>, the client MTU of the connection decides).
#ifdef C06_FAST_BUILD
#pragma GCC optimize( "O0" )
#endif
#include "../mc/mc.hpp"
#include <bluetoe/server.hpp>
#include <tuple>

#ifndef C06_GROUP
#define C06_GROUP 0
#endif

namespace {

std::size_t MTU = 23;      // negotiated MTU of the exploration that is running

// keep ASan's quarantine small: the harness allocates per step, bluetoe never does
extern "C" const char* __asan_default_options() { return "quarantine_size_mb=1:thread_local_quarantine_size_kb=64"; }

// ---- the arena: every mutable byte a characteristic is bound to, with guards in between ------------------------------
#define ARENA __attribute__(( section( "c06_arena" ), used ))
ARENA std::uint8_t  g0[ 8 ];
ARENA std::uint8_t  a_u8;
ARENA std::uint8_t  g1[ 8 ];
ARENA std::uint32_t a_u32;
ARENA std::uint8_t  g2[ 8 ];
ARENA std::uint8_t  a_a20[ 20 ];
ARENA std::uint8_t  g3[ 8 ];
ARENA std::uint8_t  a_a30[ 30 ];
ARENA std::uint8_t  g4[ 8 ];
ARENA std::uint8_t  a_hbuf[ 30 ];     // storage behind the read / write handlers
ARENA std::uint8_t  g5[ 8 ];
ARENA std::uint8_t  a_nbr[ 3 ];       // neighbour characteristic
ARENA std::uint8_t  g6[ 8 ];
#if C06_GROUP == 11
ARENA std::uint8_t  a_b300[ 300 ];    // a value longer than 255 octets: offsets >= 256 are valid (only in its own unit: keeps the state image of the others small)
ARENA std::uint8_t  g7[ 8 ];
#else
std::uint8_t        a_b300[ 300 ];    // unused
#endif
extern "C" std::uint8_t __start_c06_arena[], __stop_c06_arena[];
constexpr std::size_t ARENA_MAX = 640;
inline std::size_t arena_size() { return std::size_t( __stop_c06_arena - __start_c06_arena ); }
inline int arena_off( const void* p ) { return int( static_cast< const std::uint8_t* >( p ) - __start_c06_arena ); }

void arena_init()
{
    memset( __start_c06_arena, 0xEE, arena_size() );
    a_u8  = 0x5A;
    a_u32 = 0xA1B2C3D4u;
    for ( int i = 0; i != 20; ++i ) a_a20[ i ] = std::uint8_t( 0x40 + i );
    for ( int i = 0; i != 30; ++i ) a_a30[ i ] = std::uint8_t( 0x60 + i );
    for ( int i = 0; i != 30; ++i ) a_hbuf[ i ] = std::uint8_t( 0x80 + i );
    a_nbr[ 0 ] = 0x11; a_nbr[ 1 ] = 0x22; a_nbr[ 2 ] = 0x33;
    for ( int i = 0; i != 300; ++i ) a_b300[ i ] = std::uint8_t( i + 37 * ( i >> 8 ) + 1 );    // octet i differs from octet i mod 256
}

// ---- constant values --------------------------------------------------------------------------------------------------
const std::uint32_t c_u32 = 0x0D0C0B0Au;
constexpr char c_text[] = "C06-cstring-value-0123456789";     // 28 octets: longer than MTU 23 - 1
constexpr std::uint8_t c_blob[ 25 ] = { 0xF0, 0xF1, 0xF2, 0xF3, 0xF4, 0xF5, 0xF6, 0xF7, 0xF8, 0xF9, 0xFA, 0xFB, 0xFC, 0xFD, 0xFE, 0xFF,
                                        0xE0, 0xE1, 0xE2, 0xE3, 0xE4, 0xE5, 0xE6, 0xE7, 0xE8 };
const std::uint8_t c_f8[]  = { 0xA7 };
const std::uint8_t c_f16[] = { 0xA5, 0xB6 };
const std::uint8_t c_f32[] = { 0xD4, 0xC3, 0xB2, 0xA1 };

// ---- handlers (harness defined semantics: a fixed size buffer, a write stores exactly the written octets) -------------
constexpr int H_CAP = 8, HB_CAP = 30;

std::uint8_t h_read( std::size_t read_size, std::uint8_t* out, std::size_t& out_size )
{
    out_size = std::min< std::size_t >( read_size, H_CAP );
    memcpy( out, a_hbuf, out_size );
    return bluetoe::error_codes::success;
}
std::uint8_t h_read_blob( std::size_t offset, std::size_t read_size, std::uint8_t* out, std::size_t& out_size )
{
    if ( offset > HB_CAP ) return bluetoe::error_codes::invalid_offset;
    out_size = std::min< std::size_t >( read_size, HB_CAP - offset );
    memcpy( out, a_hbuf + offset, out_size );
    return bluetoe::error_codes::success;
}
std::uint8_t h_write( std::size_t write_size, const std::uint8_t* value )
{
    if ( write_size > H_CAP ) return bluetoe::error_codes::invalid_attribute_value_length;
    for ( std::size_t i = 0; i != write_size; ++i ) a_hbuf[ i ] = value[ i ];
    return bluetoe::error_codes::success;
}
std::uint8_t h_write_blob( std::size_t offset, std::size_t write_size, const std::uint8_t* value )
{
    if ( offset > HB_CAP ) return bluetoe::error_codes::invalid_offset;
    if ( offset + write_size > HB_CAP ) return bluetoe::error_codes::invalid_attribute_value_length;
    for ( std::size_t i = 0; i != write_size; ++i ) a_hbuf[ offset + i ] = value[ i ];
    return bluetoe::error_codes::success;
}
std::uint8_t h_write_u16( std::uint16_t v )
{
    a_hbuf[ 0 ] = std::uint8_t( v & 0xff ); a_hbuf[ 1 ] = std::uint8_t( v >> 8 );
    return bluetoe::error_codes::success;
}

// ---- value kinds and permission sets ----------------------------------------------------------------------------------
enum { K_B1, K_B4, K_B20, K_B30, K_CONST, K_F8, K_F16, K_F32, K_CSTR, K_FBLOB, K_HRW, K_HBLOB, K_HRO, K_HWO, K_HTYPED, K_B300 };
enum { P_NONE, P_NR, P_NW, P_WWR, P_OWWR, P_NR_NW, P_NR_NOTIFY };
const char* const perm_names[] = { "plain", "no_read_access", "no_write_access", "write_without_response", "only_write_without_response",
                                   "no_read_access+no_write_access", "no_read_access+notify" };

struct KindInfo { const char* name; const char* cls; int n; bool read_src, write_sink, read_blob, write_blob; int typed_len; const void* mem; const std::uint8_t* cdata; };
const KindInfo kinds[] = {
    /* K_B1    */ { "bound-uint8",      "bound",           1,  true,  true,  true,  true,  -1, &a_u8,  nullptr },
    /* K_B4    */ { "bound-uint32",     "bound",           4,  true,  true,  true,  true,  -1, &a_u32, nullptr },
    /* K_B20   */ { "bound-array20",    "bound",           20, true,  true,  true,  true,  -1, a_a20,  nullptr },
    /* K_B30   */ { "bound-array30",    "bound",           30, true,  true,  true,  true,  -1, a_a30,  nullptr },
    /* K_CONST */ { "bound-const-uint32", "bound",         4,  true,  false, true,  true,  -1, nullptr, reinterpret_cast< const std::uint8_t* >( &c_u32 ) },
    /* K_F8    */ { "fixed-uint8",      "fixed",           1,  true,  false, true,  true,  -1, nullptr, c_f8 },
    /* K_F16   */ { "fixed-uint16",     "fixed",           2,  true,  false, true,  true,  -1, nullptr, c_f16 },
    /* K_F32   */ { "fixed-uint32",     "fixed",           4,  true,  false, true,  true,  -1, nullptr, c_f32 },
    /* K_CSTR  */ { "cstring",          "cstring-wrapper", 28, true,  false, true,  true,  -1, nullptr, reinterpret_cast< const std::uint8_t* >( c_text ) },
    /* K_FBLOB */ { "fixed-blob25",     "cstring-wrapper", 25, true,  false, true,  true,  -1, nullptr, c_blob },
    /* K_HRW   */ { "handler-read+raw-write", "handler",   H_CAP,  true,  true,  false, false, -1, a_hbuf, nullptr },
    /* K_HBLOB */ { "handler-read-blob+write-blob", "handler", HB_CAP, true, true, true, true, -1, a_hbuf, nullptr },
    /* K_HRO   */ { "handler-read-only", "handler",        H_CAP,  true,  false, false, false, -1, a_hbuf, nullptr },
    /* K_HWO   */ { "handler-write-only", "handler",       H_CAP,  false, true,  false, false, -1, a_hbuf, nullptr },
    /* K_HTYPED*/ { "handler-typed-uint16-write", "handler", 2,    false, true,  false, false, 2,  a_hbuf, nullptr },
    /* K_B300  */ { "bound-array300",   "bound",           300, true, true,  true,  true,  -1, a_b300, nullptr },
};

template < int K > struct kind_opts;
template <> struct kind_opts< K_B1 >    { using type = std::tuple< bluetoe::bind_characteristic_value< std::uint8_t, &a_u8 > >; };
template <> struct kind_opts< K_B4 >    { using type = std::tuple< bluetoe::bind_characteristic_value< std::uint32_t, &a_u32 > >; };
template <> struct kind_opts< K_B20 >   { using type = std::tuple< bluetoe::bind_characteristic_value< std::uint8_t[ 20 ], &a_a20 > >; };
template <> struct kind_opts< K_B30 >   { using type = std::tuple< bluetoe::bind_characteristic_value< std::uint8_t[ 30 ], &a_a30 > >; };
template <> struct kind_opts< K_CONST > { using type = std::tuple< bluetoe::bind_characteristic_value< const std::uint32_t, &c_u32 > >; };
template <> struct kind_opts< K_F8 >    { using type = std::tuple< bluetoe::fixed_uint8_value< 0xA7 > >; };
template <> struct kind_opts< K_F16 >   { using type = std::tuple< bluetoe::fixed_uint16_value< 0xB6A5 > >; };
template <> struct kind_opts< K_F32 >   { using type = std::tuple< bluetoe::fixed_uint32_value< 0xA1B2C3D4 > >; };
template <> struct kind_opts< K_CSTR >  { using type = std::tuple< bluetoe::cstring_value< c_text > >; };
template <> struct kind_opts< K_FBLOB > { using type = std::tuple< bluetoe::fixed_blob_value< c_blob, sizeof c_blob > >; };
template <> struct kind_opts< K_HRW >   { using type = std::tuple< bluetoe::free_read_handler< &h_read >, bluetoe::free_raw_write_handler< &h_write > >; };
template <> struct kind_opts< K_HBLOB > { using type = std::tuple< bluetoe::free_read_blob_handler< &h_read_blob >, bluetoe::free_write_blob_handler< &h_write_blob > >; };
template <> struct kind_opts< K_HRO >   { using type = std::tuple< bluetoe::free_read_handler< &h_read > >; };
template <> struct kind_opts< K_HWO >   { using type = std::tuple< bluetoe::free_raw_write_handler< &h_write > >; };
template <> struct kind_opts< K_B300 >  { using type = std::tuple< bluetoe::bind_characteristic_value< std::uint8_t[ 300 ], &a_b300 > >; };
template <> struct kind_opts< K_HTYPED >{ using type = std::tuple< bluetoe::free_write_handler< std::uint16_t, &h_write_u16 > >; };

template < int P > struct perm_opts;
template <> struct perm_opts< P_NONE >      { using type = std::tuple<>; };
template <> struct perm_opts< P_NR >        { using type = std::tuple< bluetoe::no_read_access >; };
template <> struct perm_opts< P_NW >        { using type = std::tuple< bluetoe::no_write_access >; };
template <> struct perm_opts< P_WWR >       { using type = std::tuple< bluetoe::write_without_response >; };
template <> struct perm_opts< P_OWWR >      { using type = std::tuple< bluetoe::only_write_without_response >; };
template <> struct perm_opts< P_NR_NW >     { using type = std::tuple< bluetoe::no_read_access, bluetoe::no_write_access >; };
template <> struct perm_opts< P_NR_NOTIFY > { using type = std::tuple< bluetoe::no_read_access, bluetoe::notify >; };

constexpr std::uint16_t uuid_target = 0xFE10, uuid_nbr = 0xFE20;

template < class A, class B > struct make_chr;
template < class... A, class... B > struct make_chr< std::tuple< A... >, std::tuple< B... > >
{
    using type = bluetoe::characteristic< bluetoe::characteristic_uuid16< uuid_target >, A..., B... >;
};

using nbr_chr = bluetoe::characteristic< bluetoe::characteristic_uuid16< uuid_nbr >, bluetoe::bind_characteristic_value< std::uint8_t[ 3 ], &a_nbr > >;

template < int K, int P >
struct Cfg
{
    static constexpr int kind = K, perm = P;
    using chr = typename make_chr< typename kind_opts< K >::type, typename perm_opts< P >::type >::type;
    using server_t = bluetoe::server<
        bluetoe::no_gap_service_for_gatt_servers,
        bluetoe::shared_write_queue< 80 >,
        bluetoe::max_mtu_size< 65 >,
        bluetoe::service< bluetoe::service_uuid16< 0xA000 >, chr, nbr_chr > >;
    using conn_t = typename server_t::template channel_data_t< bluetoe::details::link_state >;
    static std::string name() { return std::string( kinds[ K ].name ) + "/" + perm_names[ P ]; }
};

// ---- reference model ----------------------------------------------------------------------------------------------------
struct Model
{
    std::string name; const char* cls;
    int  n;
    bool read_blob, write_blob; int typed_len;
    bool opt_nr, opt_nw, opt_wwr, opt_owwr, cccd;
    int  off;                        // arena offset of the value, -1 for constant data
    const std::uint8_t* cdata;
    bool can_read, can_write;        // expected from kind + options
    std::uint16_t h_decl, h_val, h_nbr_decl, h_nbr_val;
};

Model make_model( int K, int P, const std::string& name )
{
    const KindInfo& ki = kinds[ K ];
    Model m;
    m.name = name; m.cls = ki.cls; m.n = ki.n; m.read_blob = ki.read_blob; m.write_blob = ki.write_blob; m.typed_len = ki.typed_len;
    m.opt_nr = P == P_NR || P == P_NR_NW || P == P_NR_NOTIFY;
    m.opt_nw = P == P_NW || P == P_NR_NW;
    m.opt_wwr = P == P_WWR; m.opt_owwr = P == P_OWWR;
    m.cccd = P == P_NR_NOTIFY;
    m.off = ki.mem ? arena_off( ki.mem ) : -1;
    m.cdata = ki.cdata;
    m.can_read  = ki.read_src && !m.opt_nr;
    m.can_write = ki.write_sink && !m.opt_nw;
    m.h_decl = 2; m.h_val = 3;
    m.h_nbr_decl = std::uint16_t( m.cccd ? 5 : 4 ); m.h_nbr_val = std::uint16_t( m.h_nbr_decl + 1 );
    return m;
}

inline std::uint8_t pat( int p, int i ) { return std::uint8_t( ( p ? 0x30 : 0xC0 ) + i ); }

enum EKind { E_WRITE, E_WRITE_CMD, E_PREPARE, E_EXEC, E_READ, E_READ_BLOB, E_READ_MULT, E_RBT, E_READ_DECL, E_WRITE_NBR, E_PREPARE_NBR };
const char* const ekind_names[] = { "write", "write-command", "prepare-write", "execute-write", "read", "read-blob", "read-multiple", "read-by-type", "read-declaration", "write-neighbour", "prepare-neighbour" };
struct Event { EKind kind; int a, b, c; std::string text; };

// fixed capacity octet string (no heap traffic in the inner loop)
struct Bytes
{
    std::uint8_t b[ 96 ]; std::size_t n = 0;
    Bytes() {}
    Bytes( std::initializer_list< std::uint8_t > l ) { for ( auto x : l ) push_back( x ); }
    void push_back( std::uint8_t x ) { if ( n == sizeof b ) { fprintf( stderr, "C06 harness: Bytes overflow\n" ); exit( 2 ); } b[ n++ ] = x; }
    std::size_t size() const { return n; }
    bool empty() const { return n == 0; }
    const std::uint8_t* data() const { return b; }
    const std::uint8_t* begin() const { return b; }
    const std::uint8_t* end() const { return b + n; }
    std::uint8_t operator[]( std::size_t i ) const { return b[ i ]; }
    void insert( const std::uint8_t*, const std::uint8_t* f, const std::uint8_t* l ) { for ( ; f != l; ++f ) push_back( *f ); }
    void assign( const std::uint8_t* f, const std::uint8_t* l ) { n = 0; for ( ; f != l; ++f ) push_back( *f ); }
    std::string hex() const { return mc::hex( b, n ); }
};

struct Exp
{
    Bytes codes, bytes;
    bool ok() const { return codes.empty(); }
    bool has( std::uint8_t c ) const { return std::find( codes.begin(), codes.end(), c ) != codes.end(); }
    std::string want() const { std::string s; for ( auto c : codes ) s += ( s.empty() ? "" : "-or-" ) + mc::fmt( "%02x", c ); return s; }
    // "refuse-<codes>", memoised per set of codes
    const std::string& refuse() const
    {
        static std::map< unsigned, std::string > memo;
        unsigned key = 0; for ( auto c : codes ) key = key * 32 + c;
        auto it = memo.find( key );
        if ( it == memo.end() ) it = memo.emplace( key, "refuse-" + want() ).first;
        return it->second;
    }
    std::string first() const { return codes.empty() ? std::string( "none" ) : mc::fmt( "%02x", codes[ 0 ] ); }   // for signatures: the reason that comes first (permission, not long, length of a typed value, offset, length)
};

// the only code that depends on the server type; everything else is compiled once
struct Ops
{
    std::size_t srv_size, con_size;
    void ( *construct )( void* srv, void* con );
    void ( *input )( void* srv, void* con, const std::uint8_t* in, std::size_t in_size, std::uint8_t* out, std::size_t& out_size );
};
template < class C >
struct OpsFor
{
    using server_t = typename C::server_t;
    using conn_t   = typename C::conn_t;
    static void construct( void* srv, void* con )
    {
        memset( srv, 0xCD, sizeof( server_t ) ); memset( con, 0xCD, sizeof( conn_t ) );     // poison first: uninitialised members become visible
        new ( srv ) server_t();
        conn_t* c = new ( con ) conn_t();
        c->client_mtu( MTU );
    }
    static void input( void* srv, void* con, const std::uint8_t* in, std::size_t in_size, std::uint8_t* out, std::size_t& out_size )
    {
        static_cast< server_t* >( srv )->l2cap_input( in, in_size, out, out_size, *static_cast< conn_t* >( con ) );
    }
    static Ops ops() { return Ops{ sizeof( server_t ), sizeof( conn_t ), &construct, &input }; }
};

alignas( 64 ) unsigned char srv_raw[ 1024 ];
alignas( 64 ) unsigned char con_raw[ 256 ];

struct World
{
    Ops   ops;
    Model m;
    int   perm = 0;
    std::vector< Event > events;
    bool  all_big_prepare_offsets = false;      // thorough: Prepare Write with all seven offsets >= 255, quick: 256, 256+n-1, 0xFF00
    std::uint8_t decl_T[ 8 ], decl_N[ 8 ];      // content of the declaration attributes (captured at start up)
    std::size_t  decl_T_n = 0, decl_N_n = 0;

    // reference model.  'arena' is the expected content of the bound memory; at every explored state it equals the real
    // memory (checked after every step, failing states are not expanded), so it is re-derived at the start of a step
    // instead of being stored in the state image.
    struct Ref
    {
        std::uint8_t qn; std::uint8_t pad[ 7 ];
        struct { std::uint16_t handle, off; std::uint8_t len, pattern; } q[ 4 ];   // data = pat( pattern, 8 + i )
    } ref;
    std::uint8_t ref_arena[ ARENA_MAX ];

    std::uint8_t* out = nullptr;                   // exact size heap block (MTU octets): red zones on both sides
    std::uint8_t* in_bufs[ 66 ] = {};              // one exact size heap block per PDU length
    std::size_t   out_size = 0;
    void buffers()
    {
        delete[] out; out = new std::uint8_t[ MTU ];
        for ( std::size_t i = 1; i != 66; ++i ) if ( !in_bufs[ i ] ) in_bufs[ i ] = new std::uint8_t[ i ];
    }
    std::string   crash;
    std::set< std::uint64_t > cls_seen; bool cls_new = false;     // classes already reported (not part of the state)

    void init()
    {
        arena_init();
        ops.construct( srv_raw, con_raw );
        memset( &ref, 0, sizeof ref );
        memcpy( ref_arena, __start_c06_arena, arena_size() );
    }
    void regions( mc::Regions& r )
    {
        r.add( srv_raw, ops.srv_size );
        r.add( con_raw, ops.con_size );
        r.add( __start_c06_arena, arena_size() );
        r.add( ref );
    }

    void build_events( bool full )
    {
        events.clear();
        const int n = m.n;
        const int maxw = int( MTU ) - 3, maxp = int( MTU ) - 5;
        auto add = [&]( EKind k, int a, int b, int c, const std::string& t ) { events.push_back( Event{ k, a, b, c, "[" + m.name + "] " + t } ); };
        std::vector< int > lens, offs;
        if ( full || n <= 4 ) { for ( int i = 0; i <= n + 1; ++i ) { lens.push_back( i ); offs.push_back( i ); } }
        else for ( int i : { 0, 1, 2, n - 1, n, n + 1 } ) { lens.push_back( i ); offs.push_back( i ); }
        add( E_READ, 0, 0, 0, "Read(value)" );
        for ( int o : offs ) add( E_READ_BLOB, o, 0, 0, mc::fmt( "ReadBlob(value, offset %d)", o ) );
        // offsets that do not fit into one octet (a narrowed offset would land inside the value again)
        std::vector< int > big;
        for ( int o : { 255, 256, 257, 256 + n - 1, 512, 0x0201, 0xFF00 } ) if ( std::find( big.begin(), big.end(), o ) == big.end() ) big.push_back( o );
        for ( int o : big ) if ( std::find( offs.begin(), offs.end(), o ) == offs.end() ) add( E_READ_BLOB, o, 0, 0, mc::fmt( "ReadBlob(value, offset %d)", o ) );
        add( E_READ_BLOB, 0xFFFF, 0, 0, "ReadBlob(value, offset 65535)" );
        for ( int l : lens ) if ( l <= maxw ) for ( int p = 0; p != 2; ++p ) add( E_WRITE, l, p, 0, mc::fmt( "Write(value, %d octets, pattern %d)", l, p ) );
        for ( int l : lens ) if ( l <= maxw ) for ( int p = 0; p != 2; ++p ) add( E_WRITE_CMD, l, p, 0, mc::fmt( "WriteCommand(value, %d octets, pattern %d)", l, p ) );
        for ( int o : offs )
        {
            std::vector< int > pl{ 0, 1 };
            if ( n - o >= 2 ) pl.push_back( n - o );
            if ( n - o + 1 >= 2 ) pl.push_back( n - o + 1 );
            for ( int l : pl ) if ( l <= maxp ) add( E_PREPARE, o, l, o & 1, mc::fmt( "PrepareWrite(value, offset %d, %d octets, pattern %d)", o, l, o & 1 ) );
        }
        for ( int o : big )
            if ( std::find( offs.begin(), offs.end(), o ) == offs.end() && ( all_big_prepare_offsets || o == 256 || o == 256 + n - 1 || o == 0xFF00 ) )
            {
                add( E_PREPARE, o, 1, o & 1, mc::fmt( "PrepareWrite(value, offset %d, 1 octets, pattern %d)", o, o & 1 ) );
                if ( n - o >= 2 && n - o <= maxp ) add( E_PREPARE, o, n - o, o & 1, mc::fmt( "PrepareWrite(value, offset %d, %d octets, pattern %d)", o, n - o, o & 1 ) );
            }
        add( E_PREPARE, 0xFFFF, 1, 0, "PrepareWrite(value, offset 65535, 1 octet)" );
        add( E_EXEC, 1, 0, 0, "ExecuteWrite(1)" );
        add( E_EXEC, 0, 0, 0, "ExecuteWrite(0)" );
        add( E_READ_MULT, 0, 0, 0, "ReadMultiple(value, neighbour)" );
        add( E_READ_MULT, 1, 0, 0, "ReadMultiple(neighbour, value)" );
        add( E_READ_MULT, 2, 0, 0, "ReadMultiple(declaration, value)" );
        add( E_RBT, 0, 0, 0, "ReadByType(1..0xffff, value uuid)" );
        add( E_READ_DECL, 0, 0, 0, "Read(declaration)" );
        add( E_WRITE_NBR, 0, 0, 0, "Write(neighbour, 3 octets)" );
        add( E_PREPARE_NBR, 1, 2, 0, "PrepareWrite(neighbour, offset 1, 2 octets)" );
    }
    int num_events() const { return int( events.size() ); }
    std::string describe( int ev ) const { return events[ std::size_t( ev ) ].text; }

    // ---- driving the real server
    void request( const Bytes& pdu )
    {
        if ( pdu.size() > MTU ) { fprintf( stderr, "C06 harness: PDU larger than the MTU\n" ); exit( 2 ); }
        std::uint8_t* in = in_bufs[ pdu.size() ];                  // exact size: over-reads hit a red zone
        memcpy( in, pdu.data(), pdu.size() );
        memset( out, 0, MTU );
        out_size = MTU;
        crash = mc::Guard::call( [&]{ ops.input( srv_raw, con_raw, in, pdu.size(), out, out_size ); } );
        if ( !crash.empty() ) out_size = 0;
    }
    bool is_error() const { return out_size == 5 && out[ 0 ] == 0x01; }
    std::string rsp_class() const
    {
        if ( !crash.empty() ) return crash;
        if ( out_size == 0 ) return "silent";
        if ( is_error() ) return mc::fmt( "err%02x", out[ 4 ] );
        return mc::fmt( "rsp%02x", out[ 0 ] );
    }

    // ---- reference
    const std::uint8_t* cur() const { return m.off >= 0 ? ref_arena + m.off : m.cdata; }

    Exp exp_read( unsigned offset, std::size_t avail ) const
    {
        Exp e;
        if ( !m.can_read ) e.codes.push_back( 0x02 );
        if ( offset > 0 && !m.read_blob ) e.codes.push_back( 0x0B );
        if ( offset > unsigned( m.n ) ) e.codes.push_back( 0x07 );
        if ( e.ok() ) { const std::size_t l = std::min< std::size_t >( avail, std::size_t( m.n ) - offset ); e.bytes.assign( cur() + offset, cur() + offset + l ); }
        return e;
    }
    Exp exp_write( unsigned offset, unsigned len ) const
    {
        Exp e;
        if ( !m.can_write ) e.codes.push_back( 0x03 );
        if ( offset > 0 && !m.write_blob ) e.codes.push_back( 0x0B );
        if ( m.typed_len >= 0 && len != unsigned( m.typed_len ) ) e.codes.push_back( 0x0D );
        if ( offset > unsigned( m.n ) ) e.codes.push_back( 0x07 );
        if ( offset + len > unsigned( m.n ) && !e.has( 0x0D ) ) e.codes.push_back( 0x0D );
        return e;
    }
    void ref_store( unsigned offset, const std::uint8_t* d, unsigned len ) { if ( m.off >= 0 ) memcpy( ref_arena + m.off + offset, d, len ); }

    // ---- oracles
    void check_read_rsp( mc::Ctx& c, const char* path, std::uint8_t req, std::uint8_t rsp, std::uint16_t handle, const Exp& e, const std::string& what )
    {
        if ( e.ok() )
        {
            if ( out_size >= 1 && out[ 0 ] == rsp && out_size - 1 == e.bytes.size() && ( e.bytes.empty() || memcmp( out + 1, e.bytes.data(), e.bytes.size() ) == 0 ) ) return;
            const char* k = is_error() ? "unexpected-error" : ( out_size >= 1 && out[ 0 ] == rsp && out_size - 1 != e.bytes.size() ) ? "wrong-length" : "wrong-bytes";
            c.fail( mc::fmt( "read:%s:%s:%s", k, m.cls, path ), mc::fmt( "%s: %s answered %s, reference %02x%s", m.name.c_str(), what.c_str(), mc::hex( out, out_size ).c_str(), rsp, e.bytes.hex().c_str() ) );
            return;
        }
        if ( is_error() && out[ 1 ] == req && ( out[ 2 ] | ( out[ 3 ] << 8 ) ) == handle && e.has( out[ 4 ] ) ) return;
        if ( is_error() && out[ 1 ] == req )
            c.fail( mc::fmt( "wrong-error-code:%s:read:got-%02x-want-%s", m.cls, out[ 4 ], e.first().c_str() ), mc::fmt( "%s: %s answered %s, acceptable codes: %s", m.name.c_str(), what.c_str(), mc::hex( out, out_size ).c_str(), e.want().c_str() ) );
        else
            c.fail( mc::fmt( "read:unexpected-success:%s:%s", m.cls, path ), mc::fmt( "%s: %s answered %s, reference refuses with %s", m.name.c_str(), what.c_str(), mc::hex( out, out_size ).c_str(), e.want().c_str() ) );
    }

    // returns true if the write is expected to take place
    bool check_write_rsp( mc::Ctx& c, const char* path, std::uint8_t req, std::uint16_t handle, const Exp& e, bool command, const std::string& what )
    {
        if ( command )
        {
            if ( out_size != 0 ) c.fail( mc::fmt( "write:response-to-command:%s", m.cls ), mc::fmt( "%s: %s answered %s", m.name.c_str(), what.c_str(), mc::hex( out, out_size ).c_str() ) );
            return e.ok();
        }
        if ( e.ok() )
        {
            if ( out_size == 1 && out[ 0 ] == 0x13 ) return true;
            c.fail( mc::fmt( "write:%s:%s:%s", is_error() ? "unexpected-error" : "malformed-response", m.cls, path ), mc::fmt( "%s: %s answered %s, reference accepts", m.name.c_str(), what.c_str(), mc::hex( out, out_size ).c_str() ) );
            return true;
        }
        if ( is_error() && out[ 1 ] == req && ( out[ 2 ] | ( out[ 3 ] << 8 ) ) == handle && e.has( out[ 4 ] ) ) return false;
        if ( is_error() && out[ 1 ] == req )
            c.fail( mc::fmt( "wrong-error-code:%s:write:got-%02x-want-%s", m.cls, out[ 4 ], e.first().c_str() ), mc::fmt( "%s: %s answered %s, acceptable codes: %s", m.name.c_str(), what.c_str(), mc::hex( out, out_size ).c_str(), e.want().c_str() ) );
        else
            c.fail( mc::fmt( "write:unexpected-success:%s:%s", m.cls, path ), mc::fmt( "%s: %s answered %s, reference refuses with %s", m.name.c_str(), what.c_str(), mc::hex( out, out_size ).c_str(), e.want().c_str() ) );
        return false;
    }

    void check_arena( mc::Ctx& c, const char* path )
    {
        if ( !c.fails.empty() ) return;
        const std::size_t sz = arena_size();
        if ( memcmp( __start_c06_arena, ref_arena, sz ) == 0 ) return;
        std::size_t d = sz; bool outside = false;
        for ( std::size_t i = 0; i != sz; ++i )
            if ( __start_c06_arena[ i ] != ref_arena[ i ] )
            {
                const bool in = m.off >= 0 && int( i ) >= m.off && int( i ) < m.off + m.n;
                if ( !in && !outside ) { outside = true; d = i; }
                if ( d == sz ) d = i;
            }
        const std::string p = path;
        const char* pc = p == "write" || p == "write-command" ? "write" : p == "execute-write" ? "execute-write" : p == "prepare-write" || p == "prepare-neighbour" ? "prepare-write"
                       : p == "write-neighbour" ? "write-neighbour" : "read-path";
        c.fail( mc::fmt( "arena:%s:%s:%s", outside ? "stray-write" : "value-wrong", m.cls, pc ),
                mc::fmt( "%s: after %s the bound memory differs from the reference at arena offset %zu (value at %d..%d): is %02x, reference %02x",
                         m.name.c_str(), path, d, m.off, m.off + m.n - 1, __start_c06_arena[ d ], ref_arena[ d ] ) );
    }

    static Bytes h16( std::uint8_t op, std::uint16_t h ) { return { op, std::uint8_t( h & 0xff ), std::uint8_t( h >> 8 ) }; }

    bool apply( int evn, mc::Ctx& c )
    {
        const Event& e = events[ std::size_t( evn ) ];
        const char* path = ekind_names[ e.kind ];
        const std::uint16_t vh = m.h_val;
        std::string expect_cls = "ok";
        memcpy( ref_arena, __start_c06_arena, arena_size() );
        switch ( e.kind )
        {
        case E_READ:
        {
            request( h16( 0x0A, vh ) );
            const Exp x = exp_read( 0, MTU - 1 );
            check_read_rsp( c, "read", 0x0A, 0x0B, vh, x, e.text );
            expect_cls = x.ok() ? "ok" : x.refuse();
            break;
        }
        case E_READ_BLOB:
        {
            auto pdu = h16( 0x0C, vh ); pdu.push_back( std::uint8_t( e.a & 0xff ) ); pdu.push_back( std::uint8_t( e.a >> 8 ) );
            request( pdu );
            const Exp x = exp_read( unsigned( e.a ), MTU - 1 );
            check_read_rsp( c, "read", 0x0C, 0x0D, vh, x, e.text );
            expect_cls = x.ok() ? ( x.bytes.size() == MTU - 1 ? "ok-truncated" : x.bytes.empty() ? "ok-empty" : "ok" ) : x.refuse();
            break;
        }
        case E_READ_MULT:
        {
            const std::uint16_t h1 = e.a == 0 ? vh : e.a == 1 ? m.h_nbr_val : m.h_decl;
            const std::uint16_t h2 = e.a == 0 ? m.h_nbr_val : vh;
            auto pdu = h16( 0x0E, h1 ); pdu.push_back( std::uint8_t( h2 & 0xff ) ); pdu.push_back( std::uint8_t( h2 >> 8 ) );
            request( pdu );
            Exp all; std::uint16_t failing = 0;
            for ( std::uint16_t h : { h1, h2 } )
            {
                const std::size_t room = MTU - 1 - all.bytes.size();
                if ( h == vh )
                {
                    const Exp x = exp_read( 0, room );
                    if ( !x.ok() ) { all.codes = x.codes; failing = h; break; }
                    all.bytes.insert( all.bytes.end(), x.bytes.begin(), x.bytes.end() );
                }
                else
                {
                    const std::uint8_t* p = h == m.h_nbr_val ? ref_arena + arena_off( a_nbr ) : decl_T;
                    const std::size_t   l = std::min< std::size_t >( room, h == m.h_nbr_val ? 3 : decl_T_n );
                    all.bytes.insert( all.bytes.end(), p, p + l );
                }
            }
            check_read_rsp( c, "read-multiple", 0x0E, 0x0F, failing, all, e.text );
            expect_cls = all.ok() ? ( all.bytes.size() == MTU - 1 ? "ok-truncated" : "ok" ) : all.refuse();
            break;
        }
        case E_RBT:
        {
            request( { 0x08, 0x01, 0x00, 0xFF, 0xFF, std::uint8_t( uuid_target & 0xff ), std::uint8_t( uuid_target >> 8 ) } );
            const Exp x = exp_read( 0, std::min< std::size_t >( MTU - 4, 253 ) );
            if ( x.ok() )
            {
                Exp y; y.bytes.push_back( std::uint8_t( 2 + x.bytes.size() ) ); y.bytes.push_back( std::uint8_t( vh & 0xff ) ); y.bytes.push_back( std::uint8_t( vh >> 8 ) );
                y.bytes.insert( y.bytes.end(), x.bytes.begin(), x.bytes.end() );
                check_read_rsp( c, "read-by-type", 0x08, 0x09, vh, y, e.text );
            }
            else if ( !is_error() )      // the property does not fix the error code here, only that nothing is returned
                c.fail( mc::fmt( "read:unexpected-success:%s:read-by-type", m.cls ), mc::fmt( "%s: %s answered %s although the value is not readable", m.name.c_str(), e.text.c_str(), mc::hex( out, out_size ).c_str() ) );
            expect_cls = x.ok() ? "ok" : "refuse";
            break;
        }
        case E_READ_DECL:
        {
            request( h16( 0x0A, m.h_decl ) );
            if ( !( out_size == 1 + decl_T_n && out[ 0 ] == 0x0B && memcmp( out + 1, decl_T, decl_T_n ) == 0 ) )
                c.fail( mc::fmt( "declaration-changed:%s", m.cls ), mc::fmt( "%s: characteristic declaration now reads %s", m.name.c_str(), mc::hex( out, out_size ).c_str() ) );
            break;
        }
        case E_WRITE: case E_WRITE_CMD:
        {
            const bool cmd = e.kind == E_WRITE_CMD;
            auto pdu = h16( cmd ? 0x52 : 0x12, vh );
            std::uint8_t data[ 64 ];
            for ( int i = 0; i != e.a; ++i ) { data[ i ] = pat( e.b, i ); pdu.push_back( data[ i ] ); }
            request( pdu );
            const Exp x = exp_write( 0, unsigned( e.a ) );
            if ( check_write_rsp( c, path, 0x12, vh, x, cmd, e.text ) ) ref_store( 0, data, unsigned( e.a ) );
            expect_cls = x.ok() ? ( e.a < m.n ? "ok-partial" : "ok" ) : x.refuse();
            break;
        }
        case E_WRITE_NBR:
        {
            auto pdu = h16( 0x12, m.h_nbr_val ); pdu.push_back( 0x71 ); pdu.push_back( 0x72 ); pdu.push_back( 0x73 );
            request( pdu );
            if ( !( out_size == 1 && out[ 0 ] == 0x13 ) ) c.fail( "write:unexpected-error:bound:neighbour", mc::fmt( "%s: %s answered %s", m.name.c_str(), e.text.c_str(), mc::hex( out, out_size ).c_str() ) );
            ref_arena[ arena_off( a_nbr ) ] = 0x71; ref_arena[ arena_off( a_nbr ) + 1 ] = 0x72; ref_arena[ arena_off( a_nbr ) + 2 ] = 0x73;
            break;
        }
        case E_PREPARE: case E_PREPARE_NBR:
        {
            const bool nbr = e.kind == E_PREPARE_NBR;
            const std::uint16_t h = nbr ? m.h_nbr_val : vh;
            auto pdu = h16( 0x16, h ); pdu.push_back( std::uint8_t( e.a & 0xff ) ); pdu.push_back( std::uint8_t( e.a >> 8 ) );
            std::uint8_t data[ 64 ];
            for ( int i = 0; i != e.b; ++i ) { data[ i ] = pat( e.c, 8 + i ); pdu.push_back( data[ i ] ); }
            request( pdu );
            Exp x; if ( !nbr && !m.can_write ) x.codes.push_back( 0x03 );
            const bool accepted = out_size >= 1 && out[ 0 ] == 0x17;
            if ( !x.ok() ) check_write_rsp( c, path, 0x16, h, x, false, e.text );          // not writable: has to be refused
            else if ( accepted )
            {
                if ( !( out_size == pdu.size() && memcmp( out + 1, pdu.data() + 1, pdu.size() - 1 ) == 0 ) )
                    c.fail( mc::fmt( "prepare:echo-differs:%s", m.cls ), mc::fmt( "%s: %s answered %s", m.name.c_str(), e.text.c_str(), mc::hex( out, out_size ).c_str() ) );
                if ( ref.qn >= 4 ) { fprintf( stderr, "C06 harness: reference queue too small\n" ); exit( 2 ); }
                auto& q = ref.q[ ref.qn++ ];
                q.handle = h; q.off = std::uint16_t( e.a ); q.len = std::uint8_t( e.b ); q.pattern = std::uint8_t( e.c );
            }
            else if ( is_error() && out[ 1 ] == 0x16 && out[ 4 ] == 0x09 ) {}              // queue full: allowed, nothing queued
            else if ( !nbr && std::string( m.cls ) == "handler" && is_error() && out[ 1 ] == 0x16 ) {}   // the write handler is asked with an empty value and may refuse
            else c.fail( mc::fmt( "write:unexpected-error:%s:prepare-write", m.cls ), mc::fmt( "%s: %s answered %s, reference accepts", m.name.c_str(), e.text.c_str(), mc::hex( out, out_size ).c_str() ) );
            expect_cls = x.ok() ? "writable" : x.refuse();
            break;
        }
        case E_EXEC:
        {
            request( { 0x18, std::uint8_t( e.a ) } );
            Exp x; std::uint16_t failing = 0;
            if ( e.a == 1 )
                for ( int i = 0; i != ref.qn && x.ok(); ++i )
                {
                    auto& q = ref.q[ i ];
                    std::uint8_t qdata[ 64 ];
                    for ( int b = 0; b != q.len; ++b ) qdata[ b ] = pat( q.pattern, 8 + b );
                    if ( q.handle == vh )
                    {
                        x = exp_write( q.off, q.len );
                        if ( x.ok() ) ref_store( q.off, qdata, q.len ); else failing = vh;
                    }
                    else
                    {   // neighbour: std::uint8_t[ 3 ]
                        if ( q.off > 3 ) x.codes.push_back( 0x07 ); else if ( q.off + q.len > 3 ) x.codes.push_back( 0x0D );
                        if ( x.ok() ) memcpy( ref_arena + arena_off( a_nbr ) + q.off, qdata, q.len ); else failing = q.handle;
                    }
                }
            expect_cls = mc::fmt( "%d-queued-%s", int( ref.qn ), x.ok() ? "ok" : ( x.refuse() ).c_str() );
            ref.qn = 0; memset( ref.q, 0, sizeof ref.q );
            if ( x.ok() )
            {
                if ( !( out_size == 1 && out[ 0 ] == 0x19 ) )
                    c.fail( mc::fmt( "execute:%s:%s", is_error() ? "unexpected-error" : "malformed-response", m.cls ), mc::fmt( "%s: %s answered %s, reference applies all queued writes", m.name.c_str(), e.text.c_str(), mc::hex( out, out_size ).c_str() ) );
            }
            else if ( !is_error() )
                c.fail( mc::fmt( "execute:unexpected-success:%s", m.cls ), mc::fmt( "%s: %s answered %s, reference refuses with %s", m.name.c_str(), e.text.c_str(), mc::hex( out, out_size ).c_str(), x.want().c_str() ) );
            else if ( ( out[ 2 ] | ( out[ 3 ] << 8 ) ) != failing )
                c.fail( mc::fmt( "execute:wrong-handle:%s", m.cls ), mc::fmt( "%s: %s answered %s, failing element is handle %u", m.name.c_str(), e.text.c_str(), mc::hex( out, out_size ).c_str(), failing ) );
            else if ( !x.has( out[ 4 ] ) && out[ 4 ] != 0x07 )      // everything but Invalid Attribute Value Length is reported as Invalid Offset (pinned by execute_write_tests)
                c.fail( mc::fmt( "wrong-error-code:%s:execute:got-%02x-want-%s", m.cls, out[ 4 ], x.first().c_str() ), mc::fmt( "%s: %s answered %s, acceptable codes: %s or 07", m.name.c_str(), e.text.c_str(), mc::hex( out, out_size ).c_str(), x.want().c_str() ) );
            break;
        }
        }
        if ( !crash.empty() )
        {
            c.fails.clear();
            c.fail( mc::fmt( "memory:%s:%s:%s", crash.c_str(), m.cls, path ), mc::fmt( "%s: %s", m.name.c_str(), e.text.c_str() ) );
        }
        check_arena( c, path );
        c.obs = mc::hex( out, std::min< std::size_t >( out_size, 7 ) );     // short (no allocation); enough for the determinism check
        {
            std::uint64_t key = 1469598103934665603ull;
            auto mix = [&]( const char* p ) { for ( ; *p; ++p ) key = ( key ^ std::uint8_t( *p ) ) * 1099511628211ull; key *= 31; };
            mix( m.cls ); mix( path ); mix( expect_cls.c_str() );
            key = ( key ^ ( !crash.empty() ? 1u : out_size == 0 ? 2u : is_error() ? 0x100u + out[ 4 ] : 0x200u + out[ 0 ] ) ) * 1099511628211ull;
            if ( cls_seen.insert( key ).second ) cls_new = true;
            if ( cls_new || !c.fails.empty() ) c.cls( std::string( m.cls ) + "/" + path + "/" + expect_cls + "/" + rsp_class() );
            cls_new = false;
        }
        return true;
    }

    // ---- static part: layout self check, declared properties against permissions and observed behaviour
    void static_checks( mc::Report& rep, bool verbose )
    {
        init();
        auto bad_layout = [&]( const char* w ) { fprintf( stderr, "C06 harness: layout self check failed (%s) for %s: %s\n", w, m.name.c_str(), mc::hex( out, out_size ).c_str() ); exit( 2 ); };
        request( h16( 0x0A, m.h_decl ) );
        if ( !( out_size == 6 && out[ 0 ] == 0x0B && out[ 2 ] == m.h_val && out[ 3 ] == 0 && out[ 4 ] == ( uuid_target & 0xff ) && out[ 5 ] == ( uuid_target >> 8 ) ) ) bad_layout( "target declaration" );
        decl_T_n = 5; memcpy( decl_T, out + 1, 5 );
        request( h16( 0x0A, m.h_nbr_decl ) );
        if ( !( out_size == 6 && out[ 0 ] == 0x0B && out[ 2 ] == m.h_nbr_val && out[ 4 ] == ( uuid_nbr & 0xff ) && out[ 5 ] == ( uuid_nbr >> 8 ) ) ) bad_layout( "neighbour declaration" );
        decl_N_n = 5; memcpy( decl_N, out + 1, 5 );
        const std::uint8_t props = decl_T[ 0 ];

        request( h16( 0x0A, m.h_val ) );
        const bool read_obs = out_size >= 1 && out[ 0 ] == 0x0B;
        const std::string read_rsp = mc::hex( out, out_size );
        auto pdu = h16( 0x12, m.h_val );
        const int wl = m.typed_len >= 0 ? m.typed_len : std::min< int >( m.n, int( MTU ) - 3 );
        for ( int i = 0; i != wl; ++i ) pdu.push_back( pat( 0, i ) );
        request( pdu );
        const bool write_obs = out_size == 1 && out[ 0 ] == 0x13;
        const std::string write_rsp = mc::hex( out, out_size );
        rep.evaluations += 4; rep.traces_validated += 4;
        init();

        const std::string trace = "static [" + m.name + "]";
        auto fail = [&]( const std::string& sig, const std::string& d ) {
            rep.fail( sig, m.name + ": " + d, { trace } );
            if ( verbose ) printf( "    FAIL %s: %s\n", sig.c_str(), d.c_str() );
        };
        if ( verbose ) printf( "  %s: properties %02x, Read -> %s, Write(%d octets) -> %s\n", trace.c_str(), props, read_rsp.c_str(), wl, write_rsp.c_str() );
        rep.cls( mc::fmt( "static/%s/%s/props-%02x/read-%s/write-%s", m.cls, perm_names[ perm ], props, read_obs ? "ok" : "refused", write_obs ? "ok" : "refused" ) );

        // permission options are enforced
        if ( read_obs != m.can_read )
        {
            fail( mc::fmt( "%s:%s", read_obs ? ( m.opt_nr ? "no-read-access-ignored" : "read-without-read-source" ) : "readable-value-refused", m.cls ),
                  mc::fmt( "Read Request answered %s; %s", read_rsp.c_str(), m.can_read ? "the value is readable" : "the characteristic is not readable" ) );
            m.can_read = read_obs;      // keep checking the rest against what is really there
        }
        else if ( ( ( props & 0x02 ) != 0 ) != m.can_read )
            fail( mc::fmt( "props-mismatch:read-bit:%s", m.cls ), mc::fmt( "properties %02x, but a Read Request is answered %s", props, read_rsp.c_str() ) );

        if ( write_obs != m.can_write )
        {
            fail( mc::fmt( "%s:%s", write_obs ? ( m.opt_nw ? "no-write-access-ignored" : "write-without-write-sink" ) : "writable-value-refused", m.cls ),
                  mc::fmt( "Write Request answered %s; %s", write_rsp.c_str(), m.can_write ? "the value is writable" : "the characteristic is not writable" ) );
            m.can_write = write_obs;
        }
        else
        {
            const bool any_write_bit = ( props & 0x0C ) != 0;
            if ( any_write_bit != m.can_write )
                fail( mc::fmt( "props-mismatch:write-bits:%s", m.cls ), mc::fmt( "properties %02x, but a Write Request is answered %s", props, write_rsp.c_str() ) );
            else if ( m.can_write )
            {
                const bool want_wwr = m.opt_wwr || m.opt_owwr, want_w = !m.opt_owwr;
                if ( ( ( props & 0x04 ) != 0 ) != want_wwr || ( ( props & 0x08 ) != 0 ) != want_w )
                    fail( mc::fmt( "props-mismatch:write-without-response-bits:%s", m.cls ), mc::fmt( "properties %02x with option %s", props, perm_names[ perm ] ) );
            }
        }
    }
};

// ---- running one configuration -------------------------------------------------------------------------------------------
World w;
int configs_matched = 0;

void run_config_mtu( const Ops& ops, int K, int P, const std::string& name, const mc::Args& a, mc::Report& total, const std::string& only, bool only_static, int& rc );

void run_config( const Ops& ops, int K, int P, const std::string& name, const mc::Args& a, mc::Report& total, const std::string& only, bool only_static, int& rc )
{
    for ( std::size_t mtu : { std::size_t( 23 ), std::size_t( 65 ) } )
    {
        MTU = mtu;
        run_config_mtu( ops, K, P, name + mc::fmt( "@mtu%zu", mtu ), a, total, only, only_static, rc );
    }
}

void run_config_mtu( const Ops& ops, int K, int P, const std::string& name, const mc::Args& a, mc::Report& total, const std::string& only, bool only_static, int& rc )
{
    if ( !only.empty() && only != name ) return;
    ++configs_matched;
    if ( a.expired() && a.replay.empty() ) { total.exhaustive = false; total.notes[ "cut" ] += name + " not started (deadline); "; return; }
    if ( ops.srv_size > sizeof srv_raw || ops.con_size > sizeof con_raw || arena_size() > ARENA_MAX ) { fprintf( stderr, "C06 harness: static storage too small\n" ); exit( 2 ); }
    w.ops = ops; w.m = make_model( K, P, name ); w.perm = P; w.buffers(); w.all_big_prepare_offsets = a.thorough();

    if ( !a.replay.empty() )
    {
        mc::Report rep; rep.property = "C06"; rep.unit = total.unit;
        mc::ReplayFile rf = mc::read_replay( a.replay );
        w.static_checks( rep, only_static );
        if ( only_static ) { if ( rep.violations.count( rf.sig ) ) { printf( "REPRODUCED %s\n", rf.sig.c_str() ); rc |= 1; } else printf( "not reproduced\n" ); return; }
        // the alphabet the trace was recorded with: try the boundary alphabet first, the texts have to match
        for ( int variant = 0; variant != 4; ++variant )
        {
            w.all_big_prepare_offsets = ( variant & 2 ) != 0;
            w.build_events( ( variant & 1 ) != 0 );
            bool match = true;
            for ( auto& s : rf.steps ) { const int ev = atoi( s.c_str() ); if ( ev < 0 || ev >= w.num_events() || s.find( w.describe( ev ) ) == std::string::npos ) match = false; }
            if ( match ) break;
        }
        mc::Bfs< World > bfs( w, rep, a );
        rc |= bfs.replay_file( rf );
        return;
    }

    // static part
    const std::size_t before = total.violations.size();
    w.static_checks( total, false );
    if ( total.violations.size() != before ) total.notes[ "reference adjusted to the observed permission after a static finding" ] += name + "; ";

    // histories
    // Depth policy.  Values of at most 4 octets use the full alphabet (every length / offset 0..n+1), larger ones the
    // boundary alphabet {0,1,2,n-1,n,n+1} and additionally (thorough) the full alphabet to a smaller depth.
    //   quick   : depth 3 for both MTUs
    //   thorough: depth 4 at MTU 23 for plain / no_read_access, depth 3 for the options that only change the property
    //             byte (write_without_response, only_write_without_response) and for MTU 65 (for values <= 20 octets
    //             MTU 65 only adds the lengths 21.. and longer reads); full alphabet for n > 4: depth 3 at MTU 65
    //             (2 if it has more than 220 events or the option only changes the property byte), depth 2 at MTU 23
    struct Pass { bool full; int depth; };
    std::vector< Pass > passes;
    const int  n = w.m.n;
    const bool main_perm = P == P_NONE || P == P_NR || P == P_NR_NOTIFY;
    if ( !a.thorough() ) passes.push_back( Pass{ n <= 4, 3 } );
    else
    {
        const int base = main_perm && MTU == 23 ? 4 : 3;
        if ( n <= 4 ) passes.push_back( Pass{ true, base } );
        else
        {
            w.build_events( true );
            if ( n <= 64 ) passes.push_back( Pass{ true, MTU == 23 || !main_perm || w.num_events() > 220 ? 2 : 3 } );
            passes.push_back( Pass{ false, base } );
        }
    }
    for ( const Pass& p : passes )
    {
        w.build_events( p.full );
        mc::Report rep; rep.property = "C06"; rep.unit = total.unit;
        mc::BfsOptions o; o.max_depth = int( a.num( "depth", p.depth ) ); o.max_states = 6000000;
        mc::Bfs< World > bfs( w, rep, a, o );
        bfs.run();
        total.states += rep.states; total.transitions += rep.transitions; total.evaluations += rep.evaluations; total.traces_validated += rep.traces_validated;
        total.exhaustive = total.exhaustive && rep.exhaustive;
        if ( !rep.exhaustive ) total.notes[ "cut" ] += name + mc::fmt( " (%s alphabet, depth %d): ", p.full ? "full" : "boundary", o.max_depth ) + rep.notes[ "cut" ] + "; ";
        total.max_depth_completed = total.max_depth_completed < 0 ? rep.max_depth_completed : std::min( total.max_depth_completed, rep.max_depth_completed );
        for ( auto& cl : rep.classes ) total.cls( cl );
        for ( auto& s : rep.samples ) total.sample( s, 6 );
        total.counters[ mc::fmt( "states %s (%s alphabet %d events, depth %d)", name.c_str(), p.full ? "full" : "boundary", w.num_events(), o.max_depth ) ] = rep.states;
        total.counters[ "configurations x passes" ]++;
        for ( auto& v : rep.violations ) total.fail( v.first, v.second.detail, v.second.trace );
    }
}

template < int K, int P >
void run_one( const mc::Args& a, mc::Report& total, const std::string& only, bool only_static, int& rc )
{
    using C = Cfg< K, P >;
    run_config( OpsFor< C >::ops(), K, P, C::name(), a, total, only, only_static, rc );
}

} // namespace

int main( int argc, char** argv )
{
    mc::Args a = mc::parse_args( argc, argv );
    mc::Report total; total.property = "C06";
    total.unit = a.opt.count( "unit" ) ? a.opt[ "unit" ] : mc::fmt( "C06_values-g%d", C06_GROUP );
    std::string only; bool only_static = false;
    int rc = 0;
    if ( !a.replay.empty() )
    {
        mc::ReplayFile rf = mc::read_replay( a.replay );
        if ( rf.steps.empty() ) { printf( "empty replay\n" ); return 0; }
        const std::string& s = rf.steps[ 0 ];
        const auto b = s.find( '[' ), e = s.find( ']' );
        if ( b == std::string::npos || e == std::string::npos ) { printf( "no configuration in replay\n" ); return 0; }
        only = s.substr( b + 1, e - b - 1 );
        only_static = s.rfind( "static", 0 ) == 0;
        printf( "configuration %s%s\n", only.c_str(), only_static ? " (static check)" : "" );
    }
#define R( K, P ) run_one< K, P >( a, total, only, only_static, rc );
// T( ... ): configurations that are only built for the thorough tier (C06_QUICK keeps compilation short)
#ifdef C06_QUICK
#define T( K, P )
#else
#define T( K, P ) R( K, P )
#endif
#if C06_GROUP == 0
    R( K_B1, P_NONE ) R( K_B1, P_NR ) R( K_B1, P_NW ) T( K_B1, P_WWR ) R( K_B1, P_OWWR ) T( K_B1, P_NR_NW )
#elif C06_GROUP == 1
    R( K_B4, P_NONE ) R( K_B4, P_NR ) R( K_B4, P_NW ) R( K_B4, P_WWR ) T( K_B4, P_OWWR ) T( K_B4, P_NR_NW )
#elif C06_GROUP == 2
    R( K_B20, P_NONE ) R( K_B20, P_NR ) R( K_B20, P_NW )
#elif C06_GROUP == 3
    R( K_B20, P_WWR ) R( K_B20, P_OWWR ) R( K_B20, P_NR_NW )
#elif C06_GROUP == 4
    R( K_B30, P_NONE ) R( K_B30, P_NR ) R( K_B30, P_NW )
#elif C06_GROUP == 5
    R( K_B30, P_WWR ) R( K_B30, P_OWWR ) R( K_B30, P_NR_NW )
#elif C06_GROUP == 6
    R( K_CONST, P_NONE ) T( K_CONST, P_NR ) R( K_F8, P_NONE ) R( K_F8, P_NR ) T( K_F16, P_NONE ) R( K_F16, P_NR )
#elif C06_GROUP == 7
    R( K_F32, P_NONE ) T( K_F32, P_NR ) R( K_CSTR, P_NONE ) R( K_CSTR, P_NR ) T( K_FBLOB, P_NONE ) R( K_FBLOB, P_NR )
#elif C06_GROUP == 8
    R( K_HRW, P_NONE ) R( K_HRW, P_NR_NOTIFY ) T( K_HRW, P_WWR ) T( K_HRW, P_OWWR )
#elif C06_GROUP == 9
    R( K_HBLOB, P_NONE ) R( K_HBLOB, P_NR_NOTIFY ) T( K_HBLOB, P_WWR ) T( K_HBLOB, P_OWWR )
#elif C06_GROUP == 11
    R( K_B300, P_NONE ) T( K_B300, P_NR )
#elif C06_GROUP == 10
    R( K_HRO, P_NONE ) T( K_HRO, P_NR_NOTIFY ) R( K_HWO, P_NONE ) T( K_HWO, P_WWR ) T( K_HWO, P_OWWR ) R( K_HTYPED, P_NONE )
#endif
    if ( !a.replay.empty() )
    {
        if ( configs_matched == 0 ) printf( "configuration %s is not part of this build (quick tier builds a subset: replay with --tier thorough)\n", only.c_str() );
        return rc;
    }
    total.notes[ "bound" ] = a.thorough()
        ? mc::fmt( "group %d, MTU 23 and 65: depth 4 at MTU 23 for plain/no_read_access, depth 3 otherwise (values <= 4 octets: full alphabet; larger: boundary alphabet {0,1,2,n-1,n,n+1}, plus the full alphabet to depth 3 at MTU 65 (2 above 220 events) and depth 2 at MTU 23); see the 'states ...' counters for every pass", C06_GROUP )
        : mc::fmt( "group %d, MTU 23 and 65: depth 3 (values <= 4 octets: full alphabet; larger: boundary alphabet {0,1,2,n-1,n,n+1})", C06_GROUP );
    total.write( a );
    return 0;
}
