// C11 - indications are confirmed one at a time and never lost.
// E1: explicit-state BFS (to fixpoint in the bare world) over the glue around the notification queue:
//   world "bare": real server<> + channel_data_t connection + a notification callback that is a literal copy of
//                 link_layer::queue_lcap_notification; transmit = one server::l2cap_output() call
//   world "ll"  : real link_layer< server, llw::radio >; transmit = 2N+2 connection events (transmit_pending_l2cap_output)
// Oracles: (1) between an Indication PDU and the next well-formed Confirmation no second Indication PDU is emitted - in
// particular not after a malformed confirmation (1E 00); (2) notifications keep flowing while an indication is unconfirmed;
// (3) bounded liveness from every reachable state with a well-behaved client (it confirms exactly the indications it
// received): [transmit, confirm-if-indicated] x (2N+1) emits every accepted request, that has been subscribed ever since
// it was made, exactly once.
//
// Build: -DCFG=<configuration> -DWORLD_LL=<0|1> -DDEPTH_Q=.. -DDEPTH_T=..   (requests go through notify<uuid>()/indicate<uuid>()
// only: the by-value path is C10's subject)
#include "../mc/mc.hpp"
#include "C09_notify_servers.hpp"
#if WORLD_LL
#include "ll_world.hpp"
#endif

#ifndef CFG
#define CFG n3_p0
#endif
#ifndef DEPTH_Q
#define DEPTH_Q 1000
#endif
#ifndef DEPTH_T
#define DEPTH_T 1000
#endif
#ifndef SMALL_Q
#define SMALL_Q 1       // quick tier: CCCD writes 0000 / 0300 only (thorough: 0000 0100 0200 0300)
#endif
#define STR2( x ) #x
#define STR( x ) STR2( x )

namespace {

using cfg = nsrv::CFG< nsrv::all_both >;
using lay = cfg::lay;
constexpr int N = cfg::n;

enum { KN = 0, KI = 1 };
enum { P_NO = 0, P_YES = 1, P_MAYBE = 2 };
const char* const kind_name[] = { "notification", "indication" };

// ---- reference model ------------------------------------------------------------------------------------------------------
// pend == P_YES: the request was made while the client was subscribed for that kind and the client has been subscribed ever
// since -> it has to come out exactly once.  P_MAYBE: the client was not subscribed at some point since the request was
// made -> an implementation may have dropped it (at request time, when unsubscribing, or when it had its turn): it may
// come out at most once.
struct Ref
{
    std::uint8_t sub[ 8 ];
    std::uint8_t pend[ 2 ][ 8 ];
    std::uint8_t unconfirmed;       // an Indication PDU was emitted and no well-formed Confirmation arrived since
    std::uint8_t malformed_since;   // ... but a malformed one did
    std::uint8_t unsub_turn;        // diagnosis: a fruitless transmit opportunity happened while an indication of a not subscribed
                                    // characteristic was pending and no indication was unconfirmed
};

struct Model
{
    Ref ref;
    void reset() { memset( &ref, 0, sizeof ref ); }

    static void fail( mc::Ctx& ctx, const std::string& sig, const std::string& detail ) { ctx.fail( sig, STR( CFG ) ": " + detail ); }

    void subscribe( int k, int bits )
    {
        ref.sub[ k ] = std::uint8_t( bits );
        for ( int kind = 0; kind != 2; ++kind )
            if ( ref.pend[ kind ][ k ] == P_YES && !( bits & ( 1 << kind ) ) ) ref.pend[ kind ][ k ] = P_MAYBE;
    }
    void request( int kind, int k, bool accepted, mc::Ctx& ctx )
    {
        const bool subscribed = ( ref.sub[ k ] & ( 1 << kind ) ) != 0;
        ctx.cls( mc::fmt( "request %s: %s, %s, %s", kind_name[ kind ], accepted ? "new" : "already queued", subscribed ? "subscribed" : "not subscribed",
                          ref.unconfirmed ? "an indication is unconfirmed" : "nothing unconfirmed" ) );
        std::uint8_t& p = ref.pend[ kind ][ k ];
        if ( !subscribed ) { if ( p != P_YES ) p = P_MAYBE; }      // may be dropped at once or when it has its turn
        else if ( accepted ) p = P_YES;
        else if ( kind == KI && ref.unconfirmed ) { if ( p == P_NO ) p = P_MAYBE; }   // documented: indicate() may return false (request ignored) while a confirmation is awaited
        else p = P_YES;                                             // "already queued": whatever is queued has to come out now
    }
    void confirmation( bool well_formed, mc::Ctx& ctx )
    {
        ctx.cls( mc::fmt( "%s confirmation, %s", well_formed ? "well-formed" : "malformed", ref.unconfirmed ? "indication unconfirmed" : "nothing unconfirmed" ) );
        if ( well_formed ) { ref.unconfirmed = 0; ref.malformed_since = 0; ref.unsub_turn = 0; }
        else if ( ref.unconfirmed ) ref.malformed_since = 1;
    }

    // returns 0 on failure, else 0x1B / 0x1D
    int pdu( const std::uint8_t* att, std::size_t n, mc::Ctx& ctx )
    {
        const std::string raw = mc::hex( att, n );
        if ( n < 3 || ( att[ 0 ] != 0x1B && att[ 0 ] != 0x1D ) ) { fail( ctx, "unexpected-output:not-a-notification-or-indication", raw ); return 0; }
        const int kind = att[ 0 ] == 0x1B ? KN : KI;
        const int k = lay::by_value_handle( std::uint16_t( att[ 1 ] | ( att[ 2 ] << 8 ) ) );
        if ( k < 0 ) { fail( ctx, "unexpected-output:unknown-handle", raw ); return 0; }
        if ( kind == KI && ref.unconfirmed )
        {
            fail( ctx, mc::fmt( "second-indication-before-confirmation:%s", ref.malformed_since ? "released-by-malformed-confirmation" : "no-confirmation-at-all" ),
                  mc::fmt( "Indication %s (characteristic %d) emitted although the previous indication has not been confirmed%s", raw.c_str(), k,
                           ref.malformed_since ? " (only a malformed confirmation 1E 00 arrived)" : "" ) );
            return 0;
        }
        if ( ref.pend[ kind ][ k ] == P_NO )
        {
            fail( ctx, mc::fmt( "pdu-without-pending-request:%s", kind_name[ kind ] ), mc::fmt( "%s of characteristic %d (%s): no request is waiting (sent twice?)", kind_name[ kind ], k, raw.c_str() ) );
            return 0;
        }
        if ( !( ref.sub[ k ] & ( 1 << kind ) ) )
        {
            fail( ctx, mc::fmt( "pdu-while-not-subscribed:%s", kind_name[ kind ] ), mc::fmt( "%s although the CCCD of characteristic %d is %02x00", raw.c_str(), k, ref.sub[ k ] ) );
            return 0;
        }
        ctx.cls( mc::fmt( "%s sent while %s", kind_name[ kind ], ref.unconfirmed ? "an indication is unconfirmed" : "nothing is unconfirmed" ) );
        ref.pend[ kind ][ k ] = P_NO;
        if ( kind == KI ) { ref.unconfirmed = 1; ref.malformed_since = 0; }
        return att[ 0 ];
    }

    bool unsubscribed_indication_pending() const
    {
        for ( int k = 0; k != N; ++k ) if ( ref.pend[ KI ][ k ] != P_NO && !( ref.sub[ k ] & 2 ) ) return true;
        return false;
    }
    // diagnosis only
    void fruitless_opportunity() { if ( unsubscribed_indication_pending() && !ref.unconfirmed ) ref.unsub_turn = 1; }

    void nothing_sent( mc::Ctx& ctx )
    {
        const bool unsub_ind = unsubscribed_indication_pending();
        bool waiting = false;
        for ( int k = 0; k != N; ++k ) if ( ref.pend[ KI ][ k ] == P_YES || ref.pend[ KN ][ k ] == P_YES ) waiting = true;
        fruitless_opportunity();
        ctx.cls( mc::fmt( "transmit: nothing%s%s", waiting ? ", requests waiting" : "", unsub_ind ? ", indication of a not subscribed characteristic pending" : "" ) );
    }

    // end of a drain
    void all_delivered( mc::Ctx& ctx, const char* client, int opportunities, bool notifications_only )
    {
        for ( int kind = 0; kind != ( notifications_only ? 1 : 2 ); ++kind )
            for ( int k = 0; k != N; ++k )
                if ( ref.pend[ kind ][ k ] == P_YES )
                {
                    const char* mech = notifications_only ? ( ref.unconfirmed ? "while-indication-unconfirmed" : "nothing-unconfirmed" )
                                     : kind == KI && ref.unsub_turn ? "after-indication-of-unsubscribed-characteristic-had-its-turn"
                                     : "no-unsubscribed-indication-involved";
                    fail( ctx, mc::fmt( "liveness:%s-never-sent:%s", kind_name[ kind ], mech ),
                          mc::fmt( "%s of characteristic %d was accepted and the client has been subscribed (%02x00) ever since, but %d transmit opportunities with %s did not emit it",
                                   kind_name[ kind ], k, ref.sub[ k ], opportunities, client ) );
                    return;
                }
    }
};

// ---- events -----------------------------------------------------------------------------------------------------------------
enum ev_kind { E_SUB, E_IND, E_NOTIFY, E_TRANSMIT, E_CONFIRM, E_BADCONFIRM };
struct Ev { ev_kind e; int k, bits; };

// the events of the small alphabet come first, so that an event number means the same in both tiers ( replay files )
std::vector< Ev > make_events( bool small )
{
    std::vector< Ev > v;
    for ( int k = 0; k != N; ++k ) v.push_back( Ev{ E_SUB, k, 3 } );
    for ( int k = 0; k != N; ++k ) v.push_back( Ev{ E_SUB, k, 0 } );
    for ( int k = 0; k != N; ++k ) v.push_back( Ev{ E_IND, k, 0 } );
    for ( int k = 0; k != N; ++k ) v.push_back( Ev{ E_NOTIFY, k, 0 } );
    v.push_back( Ev{ E_TRANSMIT, 0, 0 } );
    v.push_back( Ev{ E_CONFIRM, 0, 0 } );
    v.push_back( Ev{ E_BADCONFIRM, 0, 0 } );
    if ( !small ) for ( int k = 0; k != N; ++k ) { v.push_back( Ev{ E_SUB, k, 2 } ); v.push_back( Ev{ E_SUB, k, 1 } ); }
    return v;
}
std::string describe_ev( const Ev& e )
{
    switch ( e.e )
    {
    case E_SUB:        return mc::fmt( "client writes CCCD of characteristic %d (handle 0x%04x) := %02x00", e.k, lay::cccd_handle( e.k ), e.bits );
    case E_IND:        return mc::fmt( "indicate< uuid of characteristic %d >()", e.k );
    case E_NOTIFY:     return mc::fmt( "notify< uuid of characteristic %d >()", e.k );
    case E_TRANSMIT:   return WORLD_LL ? "connection events (transmit opportunity for everything queued)" : "transmit opportunity (l2cap_output)";
    case E_CONFIRM:    return "client sends Handle Value Confirmation (1E)";
    case E_BADCONFIRM: return "client sends malformed confirmation (1E 00)";
    }
    return "?";
}

template < class S > struct ind_f    { S& s; bool r; template < int I > void call() { r = s.template indicate< nsrv::cuuid< I > >(); } };
template < class S > struct notify_f { S& s; bool r; template < int I > void call() { r = s.template notify< nsrv::cuuid< I > >(); } };
template < class S > bool do_request( S& s, const Ev& e )
{
    if ( e.e == E_IND ) { ind_f< S > f{ s, false }; nsrv::dispatch< N >( e.k, f ); return f.r; }
    notify_f< S > f{ s, false }; nsrv::dispatch< N >( e.k, f ); return f.r;
}

#if !WORLD_LL
// ============================================================================================================================
struct World
{
    using server_t = cfg::server;
    using conn_t   = server_t::channel_data_t< bluetoe::details::link_state_no_security >;

    mc::Placed< server_t > srv;
    mc::Placed< conn_t >   conn;
    Model                  m;
    std::vector< Ev >      events;

    // link_layer::queue_lcap_notification, literally
    static bool l2cap_cb( const bluetoe::details::notification_data& item, void* arg, bluetoe::details::notification_type type )
    {
        auto& connection = static_cast< World* >( arg )->conn.get();
        bool new_data = false;
        switch ( type )
        {
        case bluetoe::details::notification_type::notification:
            new_data = connection.queue_notification( item.client_characteristic_configuration_index() ); break;
        case bluetoe::details::notification_type::indication:
            new_data = connection.queue_indication( item.client_characteristic_configuration_index() ); break;
        case bluetoe::details::notification_type::confirmation:
            connection.indication_confirmed();
            return true;
        }
        return new_data;
    }

    void init()
    {
        srv.construct(); conn.construct();
        srv->notification_callback( &l2cap_cb, this );
        nsrv::reset_values< N >();
        m.reset();
    }
    void regions( mc::Regions& r ) { r.add( srv.raw, sizeof srv.raw ); r.add( conn.raw, sizeof conn.raw ); r.add( m.ref ); }
    int num_events() const { return int( events.size() ); }
    std::string describe( int ev ) const { return describe_ev( events[ ev ] ); }

    // returns -1 after an oracle failure, 0 if nothing was sent, else the opcode
    int transmit( mc::Ctx& ctx, std::string* obs )
    {
        std::uint8_t out[ 23 ]; std::size_t n = sizeof out;
        srv->l2cap_output( out, n, conn.get() );
        if ( obs ) *obs = "out=" + mc::hex( out, n );
        if ( n == 0 ) { m.nothing_sent( ctx ); return 0; }
        const int op = m.pdu( out, n, ctx );
        return op ? op : -1;
    }
    void att_input( const std::uint8_t* in, std::size_t n, std::string* obs )
    {
        std::uint8_t out[ 23 ]; std::size_t on = sizeof out;
        srv->l2cap_input( in, n, out, on, conn.get() );
        if ( obs ) *obs = "rsp=" + mc::hex( out, on );
    }
    void confirm() { const std::uint8_t in[ 1 ] = { 0x1E }; att_input( in, 1, nullptr ); }

    bool apply( int ev, mc::Ctx& ctx )
    {
        const Ev& e = events[ ev ];
        switch ( e.e )
        {
        case E_SUB:
        {
            const std::uint16_t h = lay::cccd_handle( e.k );
            const std::uint8_t in[ 5 ] = { 0x12, std::uint8_t( h ), std::uint8_t( h >> 8 ), std::uint8_t( e.bits ), 0 };
            att_input( in, sizeof in, &ctx.obs );
            if ( ctx.obs != "rsp=13" ) { Model::fail( ctx, "cccd-write-not-accepted", ctx.obs ); return true; }
            m.subscribe( e.k, e.bits );
            return true;
        }
        case E_IND: case E_NOTIFY:
        {
            const bool r = do_request( srv.get(), e );
            ctx.obs = mc::fmt( "->%d", r );
            m.request( e.e == E_IND ? KI : KN, e.k, r, ctx );
            return true;
        }
        case E_TRANSMIT: transmit( ctx, &ctx.obs ); return true;
        case E_CONFIRM:
        {
            const std::uint8_t in[ 1 ] = { 0x1E };
            att_input( in, 1, &ctx.obs );
            if ( ctx.obs != "rsp=" ) { Model::fail( ctx, "confirmation-answered", "a well-formed Handle Value Confirmation was answered with " + ctx.obs ); return true; }
            m.confirmation( true, ctx );
            return true;
        }
        case E_BADCONFIRM:
        {
            const std::uint8_t in[ 2 ] = { 0x1E, 0x00 };
            att_input( in, 2, &ctx.obs );       // "rejected": nothing or an Error Response (pinned by indication_tests.cpp broken_pdu) - both fine
            m.confirmation( false, ctx );
            return true;
        }
        }
        return false;
    }

    void drain( mc::Ctx& ctx )
    {
        unsigned char keep_srv[ sizeof srv.raw ], keep_conn[ sizeof conn.raw ]; const Ref keep_ref = m.ref;
        memcpy( keep_srv, srv.raw, sizeof keep_srv ); memcpy( keep_conn, conn.raw, sizeof keep_conn );

        // (2) notifications keep flowing while an indication is unconfirmed: no confirmation at all
        if ( m.ref.unconfirmed )
        {
            bool ok = true;
            for ( int i = 0; i != 2 * N + 1 && ok; ++i ) ok = transmit( ctx, nullptr ) >= 0;
            if ( ok ) m.all_delivered( ctx, "no confirmation", 2 * N + 1, true );
            memcpy( srv.raw, keep_srv, sizeof keep_srv ); memcpy( conn.raw, keep_conn, sizeof keep_conn ); m.ref = keep_ref;
        }
        // (3) well-behaved client
        if ( ctx.fails.empty() )
        {
            if ( m.ref.unconfirmed ) { confirm(); m.ref.unconfirmed = 0; m.ref.malformed_since = 0; }
            bool ok = true;
            for ( int i = 0; i != 2 * N + 1 && ok; ++i )
            {
                const int op = transmit( ctx, nullptr );
                ok = op >= 0;
                if ( op == 0x1D ) { confirm(); m.ref.unconfirmed = 0; m.ref.malformed_since = 0; }
            }
            if ( ok ) m.all_delivered( ctx, "a client that confirms every indication it receives", 2 * N + 1, false );
        }
        memcpy( srv.raw, keep_srv, sizeof keep_srv ); memcpy( conn.raw, keep_conn, sizeof keep_conn ); m.ref = keep_ref;
        ctx.classes.clear();
    }
};

#else
// ============================================================================================================================
struct World
{
    using ll_t = bluetoe::link_layer::link_layer< cfg::server, llw::radio >;
    static constexpr int flush_events = 2 * N + 2;

    mc::Placed< ll_t >     ll;
    Model                  m;
    std::vector< Ev >      events;

    void canon()
    {
        auto& g = ll->log;
        g.adv_count = g.ce_count = g.access_count = g.disarm_count = g.timer_count = g.timer_cancel_count = 0;
        g.wake_ups = g.cancelation_requests = g.phy_count = 0; g.rx_counter = g.tx_counter = 0;
        memset( g.tx, 0, sizeof g.tx ); g.tx_count = g.tx_nonempty = g.exchanges = g.central_unsent = g.duplicates = 0;
    }
    void init()
    {
        ll.construct();
        ll->run();
        std::uint8_t ci[ 40 ]; llw::connect_ind c; const std::size_t n = c.build( ci, ll->log.adv_data );
        ll->sim_adv_received( ci, n );
        ll->sim_empty_event();
        canon();
        nsrv::reset_values< N >();
        m.reset();
    }
    void regions( mc::Regions& r ) { r.add( ll.raw, sizeof ll.raw ); r.add( m.ref ); }
    int num_events() const { return int( events.size() ); }
    std::string describe( int ev ) const { return describe_ev( events[ ev ] ); }

    struct seen_t { int write_rsp = 0, error_rsp = 0, notifications = 0, indications = 0; };

    bool scan_tx( mc::Ctx& ctx, seen_t& seen, std::string* obs )
    {
        auto& g = ll->log;
        if ( g.tx_count > LLW_MAX_TX_LOG ) { fprintf( stderr, "harness: LLW_MAX_TX_LOG too small (%u PDUs in one event)\n", g.tx_count ); exit( 2 ); }
        for ( unsigned i = 0; i != g.tx_count; ++i )
        {
            const llw::pdu& p = g.tx[ i ];
            if ( p.n <= 2 ) continue;
            if ( p.n > LLW_MAX_PDU ) { fprintf( stderr, "harness: LLW_MAX_PDU too small (%u)\n", unsigned( p.n ) ); exit( 2 ); }
            if ( obs ) *obs += mc::hex( p.d, p.n ) + " ";
            if ( ( p.d[ 0 ] & 3 ) == 3 ) continue;      // LL control
            if ( ( p.d[ 0 ] & 3 ) != 2 || p.n < 7 || ( p.d[ 4 ] | ( p.d[ 5 ] << 8 ) ) != 4 ) { Model::fail( ctx, "unexpected-l2cap-pdu", mc::hex( p.d, p.n ) ); return false; }
            const std::uint8_t* att = p.d + 6; const std::size_t n = std::size_t( p.d[ 2 ] | ( p.d[ 3 ] << 8 ) );
            if ( n + 6 != p.n ) { Model::fail( ctx, "l2cap-length-mismatch", mc::hex( p.d, p.n ) ); return false; }
            if ( att[ 0 ] == 0x13 ) { ++seen.write_rsp; continue; }
            if ( att[ 0 ] == 0x01 ) { ++seen.error_rsp; continue; }
            const int op = m.pdu( att, n, ctx );
            if ( !op ) return false;
            ++( op == 0x1D ? seen.indications : seen.notifications );
        }
        return true;
    }
    bool flush( mc::Ctx& ctx, seen_t& seen, std::string* obs )
    {
        for ( int i = 0; i != flush_events; ++i )
        {
            ll->sim_empty_event();
            if ( !scan_tx( ctx, seen, obs ) ) return false;
        }
        return true;
    }
    bool l2cap_step( const std::uint8_t* att, std::size_t n, mc::Ctx& ctx, seen_t& seen, std::string* obs )
    {
        ll->sim_l2cap( 4, att, n );
        if ( !scan_tx( ctx, seen, obs ) ) return false;
        return flush( ctx, seen, obs );
    }

    bool apply( int ev, mc::Ctx& ctx )
    {
        const Ev& e = events[ ev ];
        seen_t seen;
        bool ok = true, radio = true;
        switch ( e.e )
        {
        case E_SUB:
        {
            const std::uint16_t h = lay::cccd_handle( e.k );
            const std::uint8_t in[ 5 ] = { 0x12, std::uint8_t( h ), std::uint8_t( h >> 8 ), std::uint8_t( e.bits ), 0 };
            m.subscribe( e.k, e.bits );     // executed inside the first connection event, before anything new is built
            ok = l2cap_step( in, sizeof in, ctx, seen, &ctx.obs );
            if ( ok && seen.write_rsp != 1 ) Model::fail( ctx, "cccd-write-not-accepted", ctx.obs );
            break;
        }
        case E_IND: case E_NOTIFY:
        {
            const bool r = do_request( ll.get(), e );
            ctx.obs = mc::fmt( "->%d", r );
            m.request( e.e == E_IND ? KI : KN, e.k, r, ctx );
            radio = false;
            break;
        }
        case E_TRANSMIT: ok = flush( ctx, seen, &ctx.obs ); break;
        case E_CONFIRM:
        {
            const std::uint8_t in[ 1 ] = { 0x1E };
            m.confirmation( true, ctx );
            ok = l2cap_step( in, 1, ctx, seen, &ctx.obs );
            if ( ok && ( seen.error_rsp || seen.write_rsp ) ) Model::fail( ctx, "confirmation-answered", ctx.obs );
            break;
        }
        case E_BADCONFIRM:
        {
            const std::uint8_t in[ 2 ] = { 0x1E, 0x00 };
            m.confirmation( false, ctx );
            ok = l2cap_step( in, 2, ctx, seen, &ctx.obs );
            break;
        }
        }
        if ( ok && radio && ctx.fails.empty() )
        {
            if ( seen.notifications + seen.indications == 0 ) m.nothing_sent( ctx );
            else m.fruitless_opportunity();     // the later connection events of the flush
            // notifications never wait: after 2N+2 connection events everything certainly pending has been received
            m.all_delivered( ctx, "no confirmation", flush_events, true );
        }
        canon();
        return true;
    }

    // well-behaved client: confirm what was received, look again
    void drain( mc::Ctx& ctx )
    {
        seen_t seen;
        bool ok = true;
        bool owe = m.ref.unconfirmed != 0;
        for ( int i = 0; i != N + 1 && ok; ++i )
        {
            if ( owe )
            {
                const std::uint8_t in[ 1 ] = { 0x1E };
                m.ref.unconfirmed = 0; m.ref.malformed_since = 0;
                const int before = seen.indications;
                ok = l2cap_step( in, 1, ctx, seen, nullptr );
                owe = seen.indications != before;
                if ( !owe ) m.fruitless_opportunity();
            }
            else
            {
                const int before = seen.indications;
                ok = flush( ctx, seen, nullptr );
                owe = seen.indications != before;
                if ( !owe ) { m.fruitless_opportunity(); break; }
            }
        }
        if ( ok && ctx.fails.empty() ) m.all_delivered( ctx, "a client that confirms every indication it receives", ( N + 1 ) * flush_events, false );
        ctx.classes.clear();
    }
};
#endif

} // namespace

int main( int argc, char** argv )
{
    mc::Args a = mc::parse_args( argc, argv );
    mc::Report rep; rep.property = "C11"; rep.unit = a.opt.count( "unit" ) ? a.opt[ "unit" ] : "C11_indication_flow";
    static World w;
    w.events = make_events( WORLD_LL || ( SMALL_Q && !a.thorough() && a.replay.empty() ) );   // replay: the full alphabet
    mc::BfsOptions o; o.with_drain = true; o.max_depth = a.thorough() ? DEPTH_T : DEPTH_Q; o.max_states = 6000000;
    mc::Bfs< World > bfs( w, rep, a, o );
    if ( !a.replay.empty() ) return bfs.replay_file( mc::read_replay( a.replay ) );
    bfs.run();
    rep.notes[ "configuration" ] = mc::fmt( "%s, %d notify+indicate characteristics, world %s, %d events, priorities %s", STR( CFG ), N, WORLD_LL ? "link_layer" : "bare server",
                                            w.num_events(), cfg::has_priorities ? "declared" : "none" );
    rep.write( a );
    return 0;
}
