// C18 - pdu_ring_buffer< Size, read_buffer, Layout > keeps PDUs intact and in FIFO order.
//
// E1: explicit-state BFS over the real ring object operating on an exact-size heap block (ASan red zones on both sides).
// One executable per ( Size, Layout ); -DC18_SIZE=<n>, -DC18_NRF for nrf_details::encrypted_pdu_layout.
//
// Events      sweep       alloc_front( n ) twice (const, idempotent) for *every* n = header+1 .. Size+1: each answer is checked
//                         against the placement policy (no state change)
//             AP(n,m,k)   alloc_front( n ); k x pop_end (k = 0,1,2: the block is handed to the radio before the link layer
//                         frees older PDUs - that is how ll_data_pdu_buffer uses the ring); fill the *whole* block (the radio
//                         owns all of it); set the header (payload m = whole block / 1 / whole block - 1); push_front
//             pop         pop_end (only if the reference FIFO is not empty - documented precondition)
// After every event: next_end() (peek) and more_than_one() against the reference, all live PDUs byte-exact in storage.
//
// Stale bytes: the search runs in passes.  In the passes "scribble-00" / "scribble-ff" every state changing event ends with
// the environment action "the radio asks for the largest block the ring hands out (at the front and at the start of the
// buffer), writes 0x00 / 0xff all over it and never commits it" - what a reception with CRC error does.  That is legal for
// any user of the ring, it is adversarial (0x00 imitates the ring's wrap mark everywhere, 0xff wipes out everything the
// ring may have left in free space) and it makes states that differ only in dead bytes equal, so the search gets deep.
// The pass "raw" (Size 12 only) leaves stale bytes as they are.
//
// Reference: FIFO of ( offset, id, len ) + offset behind the youngest PDU.  The placement policy is re-implemented from
// the class documentation / the comments in alloc_front / ring_buffer_tests.cpp:
//   * not split (oldest PDU at or below the front): at the front if n <= Size - front, else at the start of the buffer
//     if n < offset of the oldest PDU (one byte stays free), else refused
//   * split (front below the oldest PDU): at the front if n < oldest - front (one byte stays free), else refused
//   * empty ring: "it is guaranteed that the buffer can store one element of at least Size - 1"; where it is put is not
//     prescribed (any in-range block is accepted); n == Size may be accepted or refused, n > Size must be refused.
#include "../mc/mc.hpp"
#include <tuple>
#include <bluetoe/ring_buffer.hpp>

#ifdef C18_NRF
#include "bluetoe/bindings/nordic/include/bluetoe/nrf.hpp"
using layout_t = bluetoe::nrf_details::encrypted_pdu_layout;
static const char* const layout_name = "nrf-encrypted";
#else
using layout_t = bluetoe::link_layer::default_pdu_layout;
static const char* const layout_name = "default";
#endif

#ifndef C18_SIZE
#define C18_SIZE 16
#endif

// The search allocates and frees millions of tiny strings; ASan's default 256 MB quarantine makes that ~6 times slower
// (page faults).  Nothing in the code under test uses the heap, so a small quarantine loses nothing.
// suppress_equal_pcs=0: ASan must report the same faulty access again when a trace is replayed (determinism check).
extern "C" const char* __asan_default_options() { return "quarantine_size_mb=1:thread_local_quarantine_size_kb=64:suppress_equal_pcs=0:symbolize=0:fast_unwind_on_fatal=1:malloc_context_size=2:print_legend=0"; }

namespace {

using bluetoe::link_layer::read_buffer;

// mc::Guard::call without the signal-mask system call of sigsetjmp( .., 1 ): the handlers are installed with SA_NODEFER and
// an empty mask, so there is no mask to restore.
template < class F >
std::string guarded( F&& f )
{
    mc::Guard::install();
    const int before = mc::Guard::asan_errors();
    if ( sigsetjmp( mc::Guard::jb(), 0 ) == 0 ) { mc::Guard::armed() = 1; f(); mc::Guard::armed() = 0; }
    else return mc::fmt( "signal-%d", int( mc::Guard::last_signal() ) );
    return mc::Guard::asan_errors() != before ? "asan" : "";
}

constexpr int Size = C18_SIZE;
constexpr int OH   = int( layout_t::data_channel_pdu_memory_size( 0 ) );   // bytes in memory in front of the payload
constexpr int MAXN = Size / ( OH + 1 ) + 2;
constexpr int IDS  = 2;                     // ids alternate: neighbours differ, even ids have an all-zero payload

struct World
{
    using ring_t = bluetoe::link_layer::pdu_ring_buffer< Size, read_buffer, layout_t >;

    mc::Placed< ring_t > ring;
    std::uint8_t*        store = nullptr;       // exact size heap block
    int                  pat = -1;              // -1: raw, else scribble pattern

    struct Entry { std::uint16_t off; std::uint8_t id, len; };
    struct Ref
    {
        std::uint16_t front;                    // offset behind the youngest committed PDU
        std::uint8_t  n;                        // PDUs in the FIFO, e[ 0 ] is the oldest
        std::uint8_t  next_id;
        Entry         e[ MAXN ];
    } ref;

    // ---- alphabet ---------------------------------------------------------------------------------------------
    std::vector< int > alloc_sizes;
    struct Ev { int kind; int n; int mode; int k; };   // kind 0 = sweep, 1 = AP, 2 = pop
    std::vector< Ev > events;
    std::set< std::tuple< const char*, const char*, const char* > > seen_classes;   // report every class string once only

    // wide = false: the reduced alphabet of the deep passes
    void set_alphabet( bool wide )
    {
        alloc_sizes.clear(); events.clear();
        events.push_back( Ev{ 0, 0, 0, 0 } );
        if ( wide )
        {
            std::set< int > s;
            for ( int p : { 1, 2, 3, 5 } ) s.insert( OH + p );
            for ( int n : { Size / 2 - 1, Size / 2, Size / 2 + 1, Size - OH - 2, Size - 3, Size - 2, Size - 1, Size, Size + 1 } ) s.insert( n );
            for ( int n : s ) if ( n >= OH + 1 && n - OH <= 249 ) alloc_sizes.push_back( n );
            for ( int k = 0; k != 3; ++k )
                for ( int n : alloc_sizes )
                    for ( int m = 0; m + k < 3; ++m )
                        if ( n <= Size && payload_for( n, m ) != 0 ) events.push_back( Ev{ 1, n, m, k } );
        }
        else
        {
            // small PDU, odd small PDU, PDU of nearly half the ring, small PDU received into a block of more than half the
            // ring, nearly half the ring committed after the oldest PDU was freed
            alloc_sizes = { OH + 1, OH + 2, Size / 2 - 1, Size / 2 + 1, Size - 1, Size };
            events.push_back( Ev{ 1, OH + 1, 0, 0 } );
            events.push_back( Ev{ 1, OH + 2, 0, 0 } );
            events.push_back( Ev{ 1, Size / 2 - 1, 0, 0 } );
            events.push_back( Ev{ 1, Size / 2 + 1, 1, 0 } );
            events.push_back( Ev{ 1, Size / 2 - 1, 0, 1 } );
            events.push_back( Ev{ 1, Size - 1, 0, 0 } );      // what the class promises for an empty ring
            events.push_back( Ev{ 1, Size, 1, 0 } );          // the whole ring handed to the radio, small PDU received
        }
        events.push_back( Ev{ 2, 0, 0, 0 } );
    }

    World() { set_alphabet( true ); }

    // payload length for a push of a block of n bytes; 0 = mode not applicable
    static int payload_for( int n, int mode )
    {
        const int full = n - OH;
        if ( mode == 0 ) return full;
        if ( mode == 1 ) return full > 1 ? 1 : 0;
        return full > 2 ? full - 1 : 0;
    }

    void init()
    {
        if ( !store ) store = new std::uint8_t[ Size ];
        memset( store, 0xCD, Size );
        ring.construct( store );
        memset( &ref, 0, sizeof ref );
        scribble();
    }

    // environment action: allocate the largest blocks the ring hands out and fill them without committing
    void scribble()
    {
        if ( pat < 0 ) return;
        bool at_front = false, at_start = false;
        for ( int n = Size; n > OH && !( at_front && at_start ); --n )
        {
            read_buffer r = ring->alloc_front( store, n );
            if ( r.size != std::size_t( n ) || r.buffer < store || r.buffer + n > store + Size ) continue;
            const int off = int( r.buffer - store );
            bool clash = false;
            for ( int i = 0; i != ref.n; ++i ) clash = clash || ( off < ref.e[ i ].off + mem( ref.e[ i ].len ) && ref.e[ i ].off < off + n );
            if ( clash ) continue;                       // a wrong answer: left to the sweep event to report
            bool& done = off == 0 ? at_start : at_front;
            if ( done ) continue;
            done = true;
            if ( off == 0 && ref.front == 0 ) at_front = true;
            memset( r.buffer, pat, n );
        }
    }
    void regions( mc::Regions& r ) { if ( !store ) store = new std::uint8_t[ Size ]; r.add( ring.raw, sizeof ring.raw ); r.add( store, Size ); r.add( ref ); }

    int num_events() const { return int( events.size() ); }
    std::string describe( int ev ) const
    {
        const Ev& e = events[ ev ];
        static const char* const modes[] = { "whole-block", "1", "whole-block-1" };
        if ( e.kind == 0 ) return mc::fmt( "sweep alloc_front(%d..%d)", OH + 1, Size + 1 );
        if ( e.kind == 1 && e.k == 0 ) return mc::fmt( "alloc_front(%d)+fill+push_front(payload %s)", e.n, modes[ e.mode ] );
        if ( e.kind == 1 ) return mc::fmt( "alloc_front(%d)+%dxpop_end+fill+push_front(payload %s)", e.n, e.k, modes[ e.mode ] );
        return "pop_end";
    }

    // ---- reference helpers --------------------------------------------------------------------------------------
    static int mem( int payload ) { return OH + payload; }
    static std::uint8_t fill_of( int id ) { return ( id & 1 ) ? std::uint8_t( 0xA0 | id ) : std::uint8_t( 0 ); }
    static std::uint8_t expected_byte( const Entry& e, int i )
    {
        if ( i == 0 ) return std::uint8_t( 0x10 | e.id );
        if ( i == 1 ) return e.len;
        if ( i < OH ) return std::uint8_t( 0xE0 | e.id );
        return fill_of( e.id );
    }
    bool split() const { return ref.n != 0 && ref.e[ 0 ].off > ref.front; }
    const char* state_kind() const { return ref.n == 0 ? "empty" : split() ? "split" : "linear"; }

    void cls( mc::Ctx& c, const char* a, const char* b, const char* d = "" )
    {
        if ( seen_classes.count( std::make_tuple( a, b, d ) ) ) return;
        seen_classes.insert( std::make_tuple( a, b, d ) );
        char buf[ 96 ]; snprintf( buf, sizeof buf, "%s:%s%s%s", a, b, *d ? ":" : "", d );
        c.cls( buf );
    }

    // documented policy for a non empty ring: -1 = refused, else offset
    int policy( int n ) const
    {
        const int end = ref.e[ 0 ].off;
        if ( end > ref.front ) return n < end - ref.front ? ref.front : -1;
        if ( end == ref.front ) return -1;                    // completely full: cannot happen with one byte kept free
        if ( n <= Size - ref.front ) return ref.front;
        if ( n < end ) return 0;
        return -1;
    }

    // ---- oracles --------------------------------------------------------------------------------------------------
    // returns offset ( >= 0 ), -1 = refused (fine), -2 = violation recorded
    int check_alloc( int n, read_buffer r1, read_buffer r2, mc::Ctx& c )
    {
        if ( r1.buffer != r2.buffer || r1.size != r2.size ) { c.fail( "alloc-not-idempotent", mc::fmt( "alloc_front(%d) twice gave different blocks", n ) ); return -2; }
        const bool ok  = r1.size != 0;
        const long off = ok ? long( r1.buffer - store ) : -1;
        if ( ok )
        {
            if ( r1.size != std::size_t( n ) ) { c.fail( "alloc-wrong-size", mc::fmt( "alloc_front(%d) returned %zu bytes", n, r1.size ) ); return -2; }
            if ( r1.buffer == nullptr || off < 0 || off + n > Size )
            {
                c.fail( mc::fmt( "alloc-outside-storage:%s", state_kind() ), mc::fmt( "alloc_front(%d) returned offset %ld of a %d byte ring", n, off, Size ) );
                return -2;
            }
            for ( int i = 0; i != ref.n; ++i )
            {
                const int a = ref.e[ i ].off, b = a + mem( ref.e[ i ].len );
                if ( off < b && a < off + n )
                {
                    c.fail( mc::fmt( "alloc-overlaps-live-pdu:%s", state_kind() ), mc::fmt( "alloc_front(%d) -> [%ld,%ld) overlaps the committed PDU at [%d,%d)", n, off, off + n, a, b ) );
                    return -2;
                }
            }
        }
        if ( ref.n == 0 )
        {
            if ( ok && n > Size ) { c.fail( "alloc-larger-than-ring-accepted", mc::fmt( "alloc_front(%d) accepted by a %d byte ring", n, Size ) ); return -2; }
            if ( !ok && n <= Size - 1 )
            {
                c.fail( "alloc-refused:empty-ring:size-le-Size-1",
                        mc::fmt( "the ring is empty (next_end().size == 0), front at offset %d, yet alloc_front(%d) is refused; the class documents that an empty "
                                 "ring can store one element of at least Size-1 = %d bytes; no pop can follow, so every later request of this size is refused too",
                                 int( ref.front ), n, Size - 1 ) );
                return -2;
            }
            cls( c, "alloc:empty", ok ? ( off == 0 ? "at-start" : "at-front" ) : "refused", n >= Size ? "whole-ring-or-more" : "" );
        }
        else
        {
            const int want = policy( n );
            if ( ( want >= 0 ) != ok )
            {
                c.fail( mc::fmt( "alloc-policy:%s:%s", ok ? "accepted-without-room" : "refused-although-room", state_kind() ),
                        mc::fmt( "alloc_front(%d): oldest PDU at %d, front %d, ring %d: documented placement says %s, ring says %s",
                                 n, int( ref.e[ 0 ].off ), int( ref.front ), Size, want >= 0 ? mc::fmt( "offset %d", want ).c_str() : "refuse",
                                 ok ? mc::fmt( "offset %ld", off ).c_str() : "refuse" ) );
                return -2;
            }
            if ( ok && off != want )
            {
                c.fail( mc::fmt( "alloc-policy:wrong-place:%s", state_kind() ),
                        mc::fmt( "alloc_front(%d): oldest PDU at %d, front %d: documented placement is offset %d, ring returned %ld", n, int( ref.e[ 0 ].off ), int( ref.front ), want, off ) );
                return -2;
            }
            cls( c, "alloc", state_kind(), !ok ? "refused" : off == ref.front ? "at-front" : "wrapped-to-start" );
        }
        return int( off );
    }

    void ref_pop( mc::Ctx& c )
    {
        const bool wrap = ref.n > 1 && ref.e[ 1 ].off < ref.e[ 0 ].off;
        for ( int i = 1; i < ref.n; ++i ) ref.e[ i - 1 ] = ref.e[ i ];
        --ref.n;
        memset( &ref.e[ ref.n ], 0, sizeof( Entry ) );
        cls( c, "pop", ref.n == 0 ? ( ref.front == 0 ? "to-empty-at-start" : ref.front >= Size - 1 ? "to-empty-at-buffer-end" : "to-empty-mid-buffer" ) : wrap ? "next-is-wrapped" : "next-follows" );
    }

    // peek / more_than_one / every live PDU byte exact
    bool check_state( const char* after, read_buffer ne, bool more, const std::uint8_t* mem_then, mc::Ctx& c )
    {
        if ( ref.n == 0 )
        {
            if ( ne.size != 0 ) { c.fail( mc::fmt( "peek:empty-ring-reports-pdu:after-%s", after ), mc::fmt( "reference FIFO is empty, next_end() returns %zu bytes at %ld", ne.size, long( ne.buffer - store ) ) ); return false; }
        }
        else
        {
            const Entry& h = ref.e[ 0 ];
            if ( ne.size == 0 ) { c.fail( mc::fmt( "peek:pdu-lost:ring-reports-empty:after-%s", after ), mc::fmt( "%d PDUs committed and not popped, next_end() reports an empty ring", int( ref.n ) ) ); return false; }
            if ( ne.buffer != store + h.off ) { c.fail( mc::fmt( "peek:wrong-pdu:after-%s", after ), mc::fmt( "oldest PDU is id%d at %d, next_end() points to %ld", int( h.id ), int( h.off ), long( ne.buffer - store ) ) ); return false; }
            if ( ne.size != std::size_t( mem( h.len ) ) ) { c.fail( mc::fmt( "peek:wrong-size:after-%s", after ), mc::fmt( "oldest PDU has %d bytes, next_end().size = %zu", mem( h.len ), ne.size ) ); return false; }
        }
        for ( int k = 0; k != ref.n; ++k )
            for ( int i = 0; i != mem( ref.e[ k ].len ); ++i )
                if ( mem_then[ ref.e[ k ].off + i ] != expected_byte( ref.e[ k ], i ) )
                {
                    c.fail( mc::fmt( "pdu-bytes-changed:after-%s", after ), mc::fmt( "byte %d of the committed PDU id%d at offset %d changed (%02x, was %02x)", i, int( ref.e[ k ].id ), int( ref.e[ k ].off ), mem_then[ ref.e[ k ].off + i ], expected_byte( ref.e[ k ], i ) ) );
                    return false;
                }
        if ( more != ( ref.n >= 2 ) ) { c.fail( mc::fmt( "more-than-one:wrong:after-%s", after ), mc::fmt( "%d PDUs stored, more_than_one() = %d", int( ref.n ), int( more ) ) ); return false; }
        return true;
    }

    bool apply( int ev, mc::Ctx& c )
    {
        const Ev& e = events[ ev ];
        if ( e.kind == 2 && ref.n == 0 ) return false;
        if ( e.kind == 1 && e.k > ref.n ) return false;

        // everything that calls into the ring runs inside one guarded section; the observations are judged afterwards
        constexpr int SW = Size + 2;
        static read_buffer sw1[ SW ], sw2[ SW ];
        read_buffer r1{ nullptr, 0 }, r2{ nullptr, 0 }, ne[ 4 ] = { { nullptr, 0 }, { nullptr, 0 }, { nullptr, 0 }, { nullptr, 0 } };
        bool more[ 4 ] = { false, false, false, false };
        static std::uint8_t snap[ 4 ][ Size ];              // storage at the time of each observation
        int  stage = 0, len = 0, alloc_off = -1;
        Entry pushed{ 0, 0, 0 };
        const int sweep_to = Size + 1 - OH <= 249 ? Size + 1 : OH + 249;
        // ASan (recover mode) lets the code run on after a report: remember the first stage that produced one
        const int asan_before = mc::Guard::asan_errors();
        int asan_stage = 0, stage_now = 0;
        auto enter = [&]( int st ) { if ( !asan_stage && mc::Guard::asan_errors() != asan_before ) asan_stage = stage_now; stage_now = st; stage = st; };
        const std::string g = guarded( [&]
        {
            if ( e.kind == 0 )
            {
                enter( 1 );
                for ( int n = OH + 1; n <= sweep_to; ++n ) { sw1[ n ] = ring->alloc_front( store, n ); sw2[ n ] = ring->alloc_front( store, n ); }
                enter( 5 ); ne[ 0 ] = ring->next_end(); more[ 0 ] = ring->more_than_one(); memcpy( snap[ 0 ], store, Size );
                enter( 0 );
                return;
            }
            if ( e.kind == 2 )
            {
                enter( 3 ); ring->pop_end( store );
                enter( 5 ); ne[ 0 ] = ring->next_end(); more[ 0 ] = ring->more_than_one(); memcpy( snap[ 0 ], store, Size );
                enter( 6 ); scribble();
                enter( 0 );
                return;
            }
            enter( 1 ); r1 = ring->alloc_front( store, e.n ); r2 = ring->alloc_front( store, e.n );
            // only go on with a block that lies inside the storage (everything else is reported by check_alloc)
            if ( !( r1.size == std::size_t( e.n ) && r1.buffer >= store && r1.buffer + e.n <= store + Size ) ) return;
            for ( int k = 0; k != e.k; ++k )
            {
                enter( 3 ); ring->pop_end( store );
                enter( 5 ); ne[ k ] = ring->next_end(); more[ k ] = ring->more_than_one(); memcpy( snap[ k ], store, Size );
            }
            enter( 2 );
            len = payload_for( e.n, e.mode );
            pushed.off = std::uint16_t( r1.buffer - store ); pushed.id = ref.next_id; pushed.len = std::uint8_t( len );
            std::uint8_t* p = r1.buffer;
            for ( int i = 0; i != e.n; ++i ) p[ i ] = fill_of( pushed.id );          // the radio may use all of the block
            layout_t::header( p, std::uint16_t( ( 0x10 | pushed.id ) | ( len << 8 ) ) );
            for ( int i = 2; i < OH; ++i ) p[ i ] = std::uint8_t( 0xE0 | pushed.id );
            enter( 4 ); ring->push_front( store, read_buffer{ p, std::size_t( e.n ) } );
            enter( 5 ); ne[ 3 ] = ring->next_end(); more[ 3 ] = ring->more_than_one(); memcpy( snap[ 3 ], store, Size );
            enter( 0 );
        } );
        if ( !g.empty() )
        {
            static const char* const where[] = { "?", "alloc_front", "fill", "pop_end", "push_front", "next_end", "alloc_front" };
            if ( g == "asan" ) { if ( !asan_stage ) asan_stage = stage_now; stage = asan_stage; }
            c.fail( mc::fmt( "memory:%s:%s", g.c_str(), where[ stage ] ), mc::fmt( "%s on a %s ring with %d PDUs", describe( ev ).c_str(), state_kind(), int( ref.n ) ) );
            return true;
        }

        if ( e.kind == 0 )
        {
            int accepted = 0;
            for ( int n = OH + 1; n <= sweep_to; ++n )
            {
                const int r = check_alloc( n, sw1[ n ], sw2[ n ], c );
                if ( r == -2 ) return true;
                accepted += r >= 0;
            }
            alloc_off = accepted;
            check_state( "alloc", ne[ 0 ], more[ 0 ], snap[ 0 ], c );
        }
        else if ( e.kind == 2 )
        {
            ref_pop( c );
            check_state( "pop", ne[ 0 ], more[ 0 ], snap[ 0 ], c );
        }
        else
        {
            alloc_off = check_alloc( e.n, r1, r2, c );
            if ( alloc_off == -2 ) return true;
            if ( alloc_off == -1 ) { c.prune = true; }            // refused: the ring did not change
            else
            {
                for ( int k = 0; k != e.k; ++k )
                {
                    ref_pop( c );
                    if ( !check_state( "pop", ne[ k ], more[ k ], snap[ k ], c ) ) return true;
                }
                const bool was_empty = ref.n == 0;
                if ( ref.n == MAXN ) { c.fail( "harness:fifo-capacity", "reference FIFO too small" ); return true; }
                ref.e[ ref.n++ ] = pushed;
                ref.front = std::uint16_t( pushed.off + mem( len ) );
                ref.next_id = std::uint8_t( ( ref.next_id + 1 ) % IDS );
                cls( c, e.k ? "push-after-pops" : "push", was_empty ? "into-empty" : "behind-others", len == e.n - OH ? "whole-block" : "part-of-block" );
                if ( check_state( "push", ne[ 3 ], more[ 3 ], snap[ 3 ], c ) )
                {
                    // the scribble needs the updated reference (it must not touch committed PDUs)
                    const std::string g2 = guarded( [&]{ scribble(); } );
                    if ( !g2.empty() ) c.fail( mc::fmt( "memory:%s:alloc_front", g2.c_str() ), "alloc_front while looking for the largest free block" );
                }
            }
        }
        char buf[ 128 ];
        snprintf( buf, sizeof buf, "%s=%d n=%d front=%d oldest=%s", e.kind == 0 ? "accepted-sizes" : "block@", alloc_off, int( ref.n ), int( ref.front ),
                  ref.n ? mc::fmt( "id%d@%d+%d", int( ref.e[ 0 ].id ), int( ref.e[ 0 ].off ), mem( ref.e[ 0 ].len ) ).c_str() : "-" );
        c.obs = buf;
        return true;
    }
};

struct Pass { const char* name; int pat; bool wide; int depth; };

} // namespace

int main( int argc, char** argv )
{
    mc::Args a = mc::parse_args( argc, argv );
    mc::Report total; total.property = "C18";
    total.unit = a.opt.count( "unit" ) ? a.opt[ "unit" ] : mc::fmt( "C18_pdu_ring-%s%d", layout_name, Size );
    static World w;
    mc::BfsOptions o;
    o.max_states = 6000000;

    // small rings: full alphabet to the fixpoint; the others: full alphabet to a small depth, reduced alphabet to a large one
    std::vector< Pass > passes;
    const bool th = a.thorough();
    if ( Size <= 16 )
    {
        passes = { { "scribble-00", 0x00, true, 1000 }, { "scribble-ff", 0xff, true, 1000 } };
        if ( Size == 12 ) passes.push_back( Pass{ "raw", -1, true, 1000 } );
    }
    else
    {
        const int wd = int( a.num( "wide-depth", th ? ( Size > 40 ? 4 : 5 ) : 3 ) ), dd = int( a.num( "deep-depth", th ? 14 : 10 ) );
        passes = { { "wide-scribble-00", 0x00, true, wd }, { "wide-scribble-ff", 0xff, true, wd },
                   { "deep-scribble-00", 0x00, false, dd }, { "deep-scribble-ff", 0xff, false, dd }, { "deep-raw", -1, false, dd - 2 } };
    }

    std::string only;
    if ( !a.replay.empty() )
    {   // the trace's "detail" line starts with the pass name
        std::ifstream f( a.replay ); std::string l;
        while ( std::getline( f, l ) ) if ( l.rfind( "detail ", 0 ) == 0 ) only = l.substr( 7, l.find( ':' ) - 7 );
    }
    total.exhaustive = true; total.fixpoint = true;
    int maxd = 1 << 30;
    for ( std::size_t pi = 0; pi != passes.size(); ++pi )
    {
        if ( !only.empty() && only != passes[ pi ].name ) continue;
        w.pat = passes[ pi ].pat;
        w.set_alphabet( passes[ pi ].wide );
        o.max_depth = passes[ pi ].depth;
        w.seen_classes.clear();
        mc::Report rep; rep.property = "C18"; rep.unit = total.unit;
        // every pass gets an equal share of what is left of the time budget
        mc::Args pa = a; pa.start = mc::now_s(); pa.deadline = a.remaining() / double( passes.size() - pi );
        mc::Bfs< World > bfs( w, rep, pa, o );
        if ( !a.replay.empty() ) return bfs.replay_file( mc::read_replay( a.replay ) );
        bfs.run();
        total.states += rep.states; total.transitions += rep.transitions; total.evaluations += rep.evaluations;
        total.traces_validated += rep.traces_validated;
        total.exhaustive = total.exhaustive && rep.exhaustive;
        total.fixpoint = total.fixpoint && rep.fixpoint;
        maxd = std::min( maxd, rep.max_depth_completed );
        for ( auto& cl : rep.classes ) total.cls( cl );
        for ( auto& s : rep.samples ) total.sample( std::string( passes[ pi ].name ) + ": " + s, 6 );
        total.counters[ std::string( "states " ) + passes[ pi ].name ] = rep.states;
        total.counters[ std::string( "depth " ) + passes[ pi ].name ] = std::uint64_t( rep.max_depth_completed );
        for ( auto& n : rep.notes ) total.notes[ std::string( passes[ pi ].name ) + " " + n.first ] = n.second;
        for ( auto& v : rep.violations )
        {
            const bool isnew = total.fail( v.first, std::string( passes[ pi ].name ) + ": " + v.second.detail, v.second.trace );
            if ( !isnew ) total.violations[ v.first ].count += v.second.count - 1;
            else total.violations[ v.first ].count = v.second.count;
        }
    }
    total.max_depth_completed = maxd == ( 1 << 30 ) ? -1 : maxd;
    total.notes[ "configuration" ] = mc::fmt( "pdu_ring_buffer<%d, read_buffer, %s layout>, %d bytes in front of the payload, %zu passes", Size, layout_name, OH, passes.size() );
    total.write( a );
    return 0;
}
