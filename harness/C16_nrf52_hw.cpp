// C16 / C17 - the register level half of the nrf52 binding: bluetoe/bindings/nordic/nrf52/nrf52.cpp itself is part of this
// translation unit ( #include <nrf52.cpp> ), built on the host against a stand-in for <nrf.h> that gen/C16_nrf52_stub.py
// generates from the identifiers the binding uses.  All peripherals are plain RAM; the harness plays RADIO and CCM.
// Device under test: the real nrf52_radio< ..., encryption, ..., radio_hardware_with_crypto_support > object.
//
//  -DORACLE=16 : every order the link layer can produce of { setup_encryption, start_receive_encrypted, start_transmit_encrypted,
//                stop_receive_encrypted, stop_transmit_encrypted, disconnect } with non-empty PDUs in both directions in between
//                ( acknowledged, or not acknowledged and resent ), up to N steps: the ( key/IV, direction, packet counter ) the
//                CCM is given is never used for two different PDUs, and the first PDU after a direction was started with a
//                new key uses packet counter 0.
//  -DORACLE=17 : radio_hardware_with_crypto_support::received_pdu() for every combination of { CRC ok / bad, PAYLOAD event,
//                encryption on / off, length 0 / > 0, ENDCRYPT seen, MICSTATUS passed / failed, CCM bus error }:
//                valid_pdu only if the CRC is ok and either nothing had to be decrypted or the MIC was checked and passed.
//
// If nrf52.cpp does not compile against the generated stub any more, config.inc says so and the unit reports itself as
// dropped ( exhaustive = false, no verdict ) instead of breaking the build.
#include "c16stub/config.inc"
#include "../mc/mc.hpp"

#ifndef ORACLE
#define ORACLE 16
#endif

#ifndef C16_NRF52_UNAVAILABLE

#define C16_NRF_STUB_DEFINE
#include <nrf.h>
#include <nrf52.cpp>

// the two security tool box primitives setup_encryption() needs ( security_tool_box.cpp needs RNG / ECB hardware ): fakes that
// give every call a different, recognisable result
namespace bluetoe { namespace nrf52_details {
    static unsigned fake_calls = 0;
    std::uint32_t random_number32() { return 0x32000000u + ++fake_calls; }
    std::uint64_t random_number64() { return 0x6400000000000000ull + ++fake_calls; }
    bluetoe::details::uint128_t aes_le( const bluetoe::details::uint128_t& key, const bluetoe::details::uint128_t& data )
    {
        bluetoe::details::uint128_t r;
        for ( std::size_t i = 0; i != r.size(); ++i ) r[ i ] = std::uint8_t( key[ i ] ^ data[ ( i + 5 ) % 16 ] ^ ( 17 * i ) );
        return r;
    }
} }

namespace {

using hw_t = bluetoe::nrf52_details::radio_hardware_with_crypto_support;

struct no_clock
{
    using meta_type = bluetoe::nrf::nrf_details::sleep_clock_source_meta_type;
    static void start_clocks() {}
    static void stop_high_frequency_crystal_oscilator() {}
};

struct callbacks {};

struct radio_t : bluetoe::nrf52_details::nrf52_radio< 61, 61, true, radio_t, hw_t, no_clock >
{
    void adv_received( const bluetoe::link_layer::read_buffer& ) {}
    void adv_timeout() {}
    void timeout() {}
    void end_event( bluetoe::link_layer::connection_event_events ) {}
    void try_event_cancelation() {}
    void user_timer( bool ) {}
    bool is_scan_request_in_filter( const bluetoe::link_layer::device_address& ) const { return true; }
};

// static storage: -no-pie keeps it below 4 GB, the binding stores buffer addresses in 32 bit registers
alignas( 64 ) unsigned char radio_storage[ sizeof( radio_t ) ];
radio_t* radio = nullptr;
alignas( 4 ) std::uint8_t tx_pdu[ 40 ], rx_buf[ 40 ];

void zero_registers()
{
    memset( (void*)NRF_RADIO, 0, sizeof *NRF_RADIO );
    memset( (void*)NRF_CCM, 0, sizeof *NRF_CCM );
    memset( (void*)NRF_PPI, 0, sizeof *NRF_PPI );
    memset( (void*)NRF_TIMER0, 0, sizeof *NRF_TIMER0 );
}

void fresh_radio()
{
    zero_registers();
    bluetoe::nrf52_details::fake_calls = 0;
    memset( &bluetoe::nrf52_details::ccm_data_struct, 0, sizeof bluetoe::nrf52_details::ccm_data_struct );
    hw_t::receive_counter_  = bluetoe::nrf52_details::counter();
    hw_t::transmit_counter_ = bluetoe::nrf52_details::counter();
    memset( radio_storage, 0, sizeof radio_storage );
    radio = new ( radio_storage ) radio_t();        // Hardware::init(): registers, configure_encryption( false, false )
}

#if ORACLE == 16
// ---------------------------------------------------------------------------------------------------------------------
enum { E_SETUP, E_START_RX, E_START_TX, E_STOP_RX, E_STOP_TX, E_DISCONNECT, E_TX_ACKED, E_TX_UNACKED, E_RX_NEW, E_RX_RESENT, NE };
const char* ev_name[ NE ] = { "setup_encryption(new key)", "start_receive_encrypted", "start_transmit_encrypted", "stop_receive_encrypted",
    "stop_transmit_encrypted", "disconnect(stop_receive_encrypted,stop_transmit_encrypted)", "transmit-pdu-acknowledged", "transmit-pdu-not-acknowledged",
    "receive-new-pdu", "receive-resent-pdu" };

struct Nonce { std::uint8_t key_iv[ 24 ]; std::uint8_t dir; std::uint64_t counter; unsigned pdu; int step; };

struct Run
{
    // environment ( what the link layer's encryption procedures allow next )
    bool keyed = false, rx_on = false, tx_on = false, rx_started = false, tx_started = false;
    bool rx_first = false, tx_first = false;    // the next encrypted PDU of that direction is the first one under the key
    unsigned tx_serial = 0, rx_serial = 0;       // identity of the PDU currently on its way
    std::vector< Nonce > used;
    std::string sig, detail;
    std::vector< std::string > cls;

    bool enabled( int e ) const
    {
        switch ( e )
        {
        case E_SETUP:      return !rx_on && !tx_on;
        case E_START_RX:   return keyed && !rx_on && !tx_on && !rx_started;
        case E_START_TX:   return rx_on && !tx_on && !tx_started;
        case E_STOP_RX:    return rx_on && tx_on;
        case E_STOP_TX:    return tx_on && !rx_on;
        case E_DISCONNECT: return rx_on || tx_on;
        }
        return true;
    }

    static std::uint64_t counter_in_ccm()
    {
        const std::uint8_t* p = &bluetoe::nrf52_details::ccm_data_struct.data[ 16 ];
        std::uint64_t v = 0;
        for ( int i = 4; i >= 0; --i ) v = v << 8 | p[ i ];
        return v;
    }

    void use_nonce( bool tx, unsigned pdu, int step, bool first )
    {
        Nonce n;
        memcpy( n.key_iv, &bluetoe::nrf52_details::ccm_data_struct.data[ 0 ], 16 );
        memcpy( n.key_iv + 16, &bluetoe::nrf52_details::ccm_data_struct.data[ 25 ], 8 );
        n.dir = bluetoe::nrf52_details::ccm_data_struct.data[ 24 ]; n.counter = counter_in_ccm(); n.pdu = pdu; n.step = step;
        const std::uint8_t want_dir = tx ? 0x00 : 0x01;
        if ( n.dir != want_dir && sig.empty() )
        {
            sig = mc::fmt( "hw:wrong-direction-bit:%s", tx ? "transmit" : "receive" );
            detail = mc::fmt( "step %d: CCM direction octet is %u", step, n.dir );
        }
        for ( const Nonce& o : used )
            if ( o.dir == n.dir && o.counter == n.counter && memcmp( o.key_iv, n.key_iv, sizeof n.key_iv ) == 0 && o.pdu != n.pdu && sig.empty() )
            {
                sig = mc::fmt( "hw:nonce-reused:%s", tx ? "transmit" : "receive" );
                detail = mc::fmt( "step %d: %s PDU #%u is given packet counter %llu under the same key / IV as PDU #%u in step %d", step,
                    tx ? "transmitted" : "received", pdu, (unsigned long long)n.counter, o.pdu, o.step );
            }
        if ( first && n.counter != 0 && sig.empty() )
        {
            sig = mc::fmt( "hw:first-pdu-of-new-key-not-counter-0:%s", tx ? "transmit" : "receive" );
            detail = mc::fmt( "step %d: first encrypted %s PDU under a new key uses packet counter %llu", step, tx ? "transmitted" : "received", (unsigned long long)n.counter );
        }
        used.push_back( n );
    }

    void apply( int e, int step )
    {
        using bluetoe::link_layer::read_buffer; using bluetoe::link_layer::write_buffer;
        switch ( e )
        {
        case E_SETUP:
        {
            bluetoe::details::uint128_t key; for ( std::size_t i = 0; i != key.size(); ++i ) key[ i ] = std::uint8_t( 0x10 * step + i );
            radio->setup_encryption( key, 0x1111111111111111ull * ( step + 1 ), 0x01010101u * ( step + 1 ) );
            keyed = true; rx_started = tx_started = false;
            break;
        }
        case E_START_RX:   radio->start_receive_encrypted();  rx_on = true;  rx_started = true; rx_first = true; break;
        case E_START_TX:   radio->start_transmit_encrypted(); tx_on = true;  tx_started = true; tx_first = true; break;
        case E_STOP_RX:    radio->stop_receive_encrypted();   rx_on = false; break;
        case E_STOP_TX:    radio->stop_transmit_encrypted();  tx_on = false; break;
        case E_DISCONNECT: radio->stop_receive_encrypted(); radio->stop_transmit_encrypted(); rx_on = tx_on = false; keyed = false; break;
        case E_TX_ACKED: case E_TX_UNACKED:
        {
            // a non-empty PDU goes out ( configure_final_transmit is what the ISR calls with the buffer's answer )
            tx_pdu[ 0 ] = 0x02; tx_pdu[ 1 ] = 5; tx_pdu[ 2 ] = 0;
            NRF_CCM->TASKS_KSGEN = 0;
            hw_t::configure_final_transmit( write_buffer{ tx_pdu, 8 } );
            const bool encrypted = NRF_CCM->TASKS_KSGEN != 0;
            if ( encrypted != tx_on && sig.empty() )
            {
                sig = mc::fmt( "hw:transmit-encryption-%s", encrypted ? "on-although-stopped" : "off-although-started" );
                detail = mc::fmt( "step %d: a non-empty PDU is transmitted %s", step, encrypted ? "encrypted" : "in plain text" );
            }
            if ( encrypted ) { use_nonce( true, tx_serial, step, tx_first ); tx_first = false; }
            cls.push_back( mc::fmt( "tx-%s/%s", encrypted ? "encrypted" : "plain", e == E_TX_ACKED ? "acknowledged" : "resent-later" ) );
            if ( e == E_TX_ACKED ) { radio->increment_transmit_packet_counter(); ++tx_serial; }    // ll_data_pdu_buffer::acknowledge()
            break;
        }
        case E_RX_NEW: case E_RX_RESENT:
        {
            // the receive buffer is set up for the next event; a non-empty PDU arrives
            NRF_CCM->TASKS_KSGEN = 0;
            hw_t::configure_receive_train( read_buffer{ rx_buf, 31 } );
            const bool encrypted = NRF_CCM->TASKS_KSGEN != 0;
            if ( encrypted != rx_on && sig.empty() )
            {
                sig = mc::fmt( "hw:receive-encryption-%s", encrypted ? "on-although-stopped" : "off-although-started" );
                detail = mc::fmt( "step %d: reception is set up %s", step, encrypted ? "with decryption" : "without decryption" );
            }
            if ( e == E_RX_NEW )
            {
                // the central sends PDU #rx_serial with the counter it has for it; the peripheral has to decrypt with the same value
                if ( encrypted ) { use_nonce( false, rx_serial, step, rx_first ); rx_first = false; }
                radio->increment_receive_packet_counter(); ++rx_serial;                           // ll_data_pdu_buffer::received()
            }
            // a resent PDU is received with an advanced counter: MIC failure, acknowledge(), nothing is counted
            cls.push_back( mc::fmt( "rx-%s/%s", encrypted ? "encrypted" : "plain", e == E_RX_NEW ? "new" : "resent" ) );
            break;
        }
        }
    }
};

std::string run_sequence( const std::vector< int >& seq, std::string& detail, mc::Report* rep, bool print )
{
    fresh_radio();
    Run r;
    for ( std::size_t i = 0; i != seq.size(); ++i )
    {
        if ( !r.enabled( seq[ i ] ) ) return "not-enabled";
        r.apply( seq[ i ], int( i ) );
        if ( print ) printf( "  step %zu: %-60s rx %s tx %s  counters rx %u:%08x tx %u:%08x\n", i, ev_name[ seq[ i ] ], r.rx_on ? "on " : "off", r.tx_on ? "on " : "off",
            hw_t::receive_counter_.high, hw_t::receive_counter_.low, hw_t::transmit_counter_.high, hw_t::transmit_counter_.low );
        if ( !r.sig.empty() ) break;
    }
    if ( rep ) for ( auto& c : r.cls ) rep->cls( c );
    detail = r.detail;
    return r.sig;
}
#endif

#if ORACLE == 17
// ---------------------------------------------------------------------------------------------------------------------
struct Combo { bool crc_ok, payload, encrypted, nonempty, endcrypt, mic_ok, bus_error; };

std::string describe( const Combo& k )
{
    return mc::fmt( "crc=%s payload-event=%d encryption=%s length=%s endcrypt=%d micstatus=%s ccm-error=%d", k.crc_ok ? "ok" : "bad", k.payload, k.encrypted ? "on" : "off",
        k.nonempty ? ">0" : "0", k.endcrypt, k.mic_ok ? "passed" : "failed", k.bus_error );
}

std::string one( const Combo& k, std::string& detail, bool print )
{
    using bluetoe::link_layer::read_buffer;
    fresh_radio();
    if ( k.encrypted ) radio->start_receive_encrypted();
    memset( rx_buf, 0, sizeof rx_buf );
    hw_t::configure_receive_train( read_buffer{ rx_buf, 31 } );
    // what RADIO and CCM leave behind when the DISABLED interrupt is served
    std::uint8_t* on_air = reinterpret_cast< std::uint8_t* >( std::uintptr_t( NRF_RADIO->PACKETPTR ) );
    on_air[ 0 ] = 0x02; on_air[ 1 ] = k.nonempty ? 9 : 0;
    NRF_RADIO->CRCSTATUS      = k.crc_ok ? RADIO_CRCSTATUS_CRCSTATUS_CRCOk : 0;
    NRF_RADIO->EVENTS_PAYLOAD = k.payload;
    NRF_CCM->EVENTS_ENDCRYPT  = k.endcrypt;
    NRF_CCM->MICSTATUS        = k.mic_ok ? CCM_MICSTATUS_MICSTATUS_CheckPassed : CCM_MICSTATUS_MICSTATUS_CheckFailed;
    NRF_CCM->EVENTS_ERROR     = k.bus_error;

    bool valid_anchor, valid_pdu, valid_crc;
    std::tie( valid_anchor, valid_pdu, valid_crc ) = hw_t::received_pdu();
    if ( print ) printf( "  %s -> valid_anchor %d valid_pdu %d valid_crc %d\n", describe( k ).c_str(), valid_anchor, valid_pdu, valid_crc );

    const bool to_decrypt   = k.encrypted && k.nonempty;
    const bool mic_verified = !to_decrypt || ( k.endcrypt && k.mic_ok );
    if ( valid_pdu && !( k.crc_ok && k.payload ) )
    {
        detail = describe( k ) + ": reported as valid PDU";
        return "hw:valid-pdu-without-valid-crc";
    }
    if ( valid_pdu && !mic_verified )
    {
        detail = describe( k ) + ": reported as valid PDU, received() would acknowledge it and hand it to the link layer";
        return !k.endcrypt ? "hw:valid-pdu-without-verified-mic:decryption-not-finished" : "hw:valid-pdu-without-verified-mic:mic-failed";
    }
    if ( valid_pdu && !valid_anchor )
    {
        detail = describe( k ) + ": valid PDU without a valid anchor";
        return "hw:valid-pdu-without-anchor";
    }
    return "";
}
#endif

} // namespace

int main( int argc, char** argv )
{
    mc::Args a = mc::parse_args( argc, argv );
    mc::Report rep; rep.property = ORACLE == 16 ? "C16" : "C17"; rep.unit = a.opt.count( "unit" ) ? a.opt[ "unit" ] : "C16_nrf52_hw";

#if ORACLE == 16
    if ( !a.replay.empty() )
    {
        mc::ReplayFile rf = mc::read_replay( a.replay );
        std::vector< int > seq; for ( auto& s : rf.steps ) seq.push_back( atoi( s.c_str() ) );
        std::string d; const std::string sig = run_sequence( seq, d, nullptr, true );
        if ( sig == rf.sig ) { printf( "REPRODUCED %s: %s\n", sig.c_str(), d.c_str() ); return 1; }
        printf( "not reproduced\n" ); return 0;
    }
    const int depth = int( a.num( "depth", a.thorough() ? 10 : 8 ) );
    // depth first enumeration of all enabled sequences; every prefix is executed from a fresh radio object
    std::vector< int > seq;
    std::function< void() > rec = [&]()
    {
        if ( a.expired() ) { rep.exhaustive = false; return; }
        if ( !seq.empty() )
        {
            std::string d; const std::string sig = run_sequence( seq, d, &rep, false );
            ++rep.evaluations; ++rep.traces_validated;
            if ( sig == "not-enabled" ) return;
            if ( !sig.empty() )
            {
                std::vector< std::string > t; for ( int e : seq ) t.push_back( mc::fmt( "%d %s", e, ev_name[ e ] ) );
                rep.fail( sig, d, t );
                return;         // do not look behind a failure
            }
            if ( rep.samples.size() < 3 && seq.size() == 7 && seq[ 0 ] == E_SETUP && seq[ 1 ] == E_START_RX && seq[ 2 ] == E_START_TX && seq[ 3 ] == E_TX_ACKED && seq[ 4 ] == E_STOP_RX && seq[ 5 ] >= E_TX_ACKED )
            {
                std::string s; for ( int e : seq ) s += std::string( ev_name[ e ] ) + "; ";
                rep.sample( s + "=> no packet counter used twice" );
            }
        }
        if ( int( seq.size() ) == depth ) return;
        for ( int e = 0; e != NE; ++e ) { seq.push_back( e ); rec(); seq.pop_back(); }
    };
    rec();
    rep.notes[ "bound" ] = mc::fmt( "all sequences of up to %d steps over 10 events (6 encryption procedure steps in every order the link layer's procedures allow, 4 kinds of PDU traffic)", depth );
    rep.notes[ "dut" ] = "real nrf52_radio<61,61,true,...,radio_hardware_with_crypto_support> from nrf52.hpp / nrf52.cpp; registers are RAM, security tool box primitives of setup_encryption() are fakes";
#else
    if ( !a.replay.empty() )
    {
        mc::ReplayFile rf = mc::read_replay( a.replay );
        for ( auto& s : rf.steps )
        {
            unsigned v = unsigned( atoi( s.c_str() ) );
            Combo k{ bool( v & 1 ), bool( v & 2 ), bool( v & 4 ), bool( v & 8 ), bool( v & 16 ), bool( v & 32 ), bool( v & 64 ) };
            std::string d; const std::string sig = one( k, d, true );
            if ( sig == rf.sig ) { printf( "REPRODUCED %s: %s\n", sig.c_str(), d.c_str() ); return 1; }
        }
        printf( "not reproduced\n" ); return 0;
    }
    for ( unsigned v = 0; v != 128; ++v )
    {
        Combo k{ bool( v & 1 ), bool( v & 2 ), bool( v & 4 ), bool( v & 8 ), bool( v & 16 ), bool( v & 32 ), bool( v & 64 ) };
        std::string d; const std::string sig = one( k, d, false );
        ++rep.evaluations; ++rep.traces_validated;
        rep.cls( mc::fmt( "%s/%s/%s", k.crc_ok && k.payload ? "received" : "nothing-received", !k.encrypted ? "plain" : !k.nonempty ? "encrypted-link-empty-pdu" : !k.endcrypt ? "decryption-not-finished" : k.mic_ok ? "mic-passed" : "mic-failed", sig.empty() ? "ok" : "violation" ) );
        if ( !sig.empty() ) rep.fail( sig, d, { mc::fmt( "%u %s", v, describe( k ).c_str() ) } );
        else if ( rep.samples.size() < 4 && k.crc_ok && k.payload && k.encrypted && k.nonempty && !k.bus_error ) rep.sample( describe( k ) + " => answer of received_pdu() consistent with the oracle" );
    }
    rep.notes[ "bound" ] = "all 128 combinations of CRC status, PAYLOAD event, encryption on/off, length 0 / >0, ENDCRYPT event, MICSTATUS, CCM error event";
    rep.notes[ "dut" ] = "real radio_hardware_with_crypto_support::configure_receive_train() + received_pdu() from nrf52.cpp; registers are RAM";
#endif
    rep.write( a );
    return 0;
}

#else   // C16_NRF52_UNAVAILABLE

int main( int argc, char** argv )
{
    mc::Args a = mc::parse_args( argc, argv );
    mc::Report rep; rep.property = ORACLE == 16 ? "C16" : "C17"; rep.unit = a.opt.count( "unit" ) ? a.opt[ "unit" ] : "C16_nrf52_hw";
    rep.notes[ "dropped" ] = std::string( "register level sub-check of nrf52.cpp skipped: " ) + C16_NRF52_WHY;
    rep.exhaustive = false;
    if ( !a.replay.empty() ) return 0;
    rep.write( a );
    return 0;
}

#endif
