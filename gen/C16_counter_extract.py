#!/usr/bin/env python3
"""C16, second anchor: copies the definitions of bluetoe::nrf52_details::counter (constructor, increment, copy_to) out of
bluetoe/bindings/nordic/nrf52/nrf52.cpp (a register-heavy translation unit that cannot be built on the host as a whole)
into <builddir>/C16_counter_extract.inc, so that the harness compiles *the repository's text* of these functions against
the class declaration in nrf52.hpp.  If the section cannot be found the include file says so and the harness reports the
sub-check as dropped instead of failing the build.

usage: C16_counter_extract.py <builddir> <unitname>      (VERIF_REPO selects the tree, default /repo)
"""
import os, re, sys

bdir = sys.argv[1]
repo = os.environ.get("VERIF_REPO", "/repo")
src = os.path.join(repo, "bluetoe/bindings/nordic/nrf52/nrf52.cpp")
out = os.path.join(bdir, "C16_counter_extract.inc")

text = open(src).read() if os.path.exists(src) else ""
body = None
m = re.search(r"^[ \t]*counter::counter\(\)", text, re.M)
if m:
    # from the constructor up to the next banner comment ( "//////" ) or the end of the namespace
    rest = text[m.start():]
    e = re.search(r"^[ \t]*/{10,}", rest, re.M)
    chunk = rest[:e.start()] if e else None
    if chunk and "counter::increment" in chunk and "counter::copy_to" in chunk and chunk.count("{") == chunk.count("}"):
        body = chunk

with open(out, "w") as f:
    if body is None:
        f.write("#define C16_COUNTER_UNAVAILABLE 1\n")
    else:
        f.write("// extracted from %s\nnamespace bluetoe { using namespace bluetoe::nrf; namespace nrf52_details {\n%s\n} }\n" % (src, body))
sys.exit(0)
