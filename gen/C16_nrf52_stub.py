#!/usr/bin/env python3
"""C16 / C17, nrf52 binding on the host: writes <builddir>/c16stub/nrf.h - a stand-in for Nordic's <nrf.h> that
is *generated from the identifiers the binding uses* (bluetoe/bindings/nordic/nrf52/nrf52.cpp, nrf52.hpp, nrf.hpp of the
tree under test), so that edits of the binding that touch further registers or bit field names still compile:

  * every  <peripheral pointer> -> MEMBER  becomes a volatile 32 bit member (array / sub-structure where it is indexed),
    all peripherals are plain zero initialised structs in RAM (defined in the including harness via C16_NRF_STUB_DEFINE);
  * every  PERIPHERAL_REGISTER_FIELD_xxx  constant gets its MDK value where the logic depends on it (table below) and an
    inert default otherwise (_Pos 0, _Msk 1, values 1);
  * the handful of CMSIS functions are empty inline functions.

Then it test-compiles nrf52.cpp against the stub.  If that fails the file <builddir>/c16stub/config.inc says
C16_NRF52_UNAVAILABLE and the harness reports the sub-check as dropped instead of breaking the build of the property.

usage: C16_nrf52_stub.py <builddir> <unitname>        (VERIF_REPO selects the tree, default /repo)
"""
import os, re, subprocess, sys

bdir, unit = sys.argv[1], sys.argv[2]
repo = os.environ.get("VERIF_REPO", "/repo")
nordic = os.path.join(repo, "bluetoe/bindings/nordic")
srcs = [os.path.join(nordic, "nrf52/nrf52.cpp"), os.path.join(nordic, "nrf52/include/bluetoe/nrf52.hpp"),
        os.path.join(nordic, "include/bluetoe/nrf.hpp")]
out = os.path.join(bdir, "c16stub")
os.makedirs(out, exist_ok=True)

KNOWN = {  # values as in the nRF52 MDK, where the logic of the binding depends on them
    "RADIO_CRCSTATUS_CRCSTATUS_Msk": 1, "RADIO_CRCSTATUS_CRCSTATUS_CRCOk": 1, "RADIO_CRCSTATUS_CRCSTATUS_CRCError": 0,
    "CCM_MICSTATUS_MICSTATUS_Msk": 1, "CCM_MICSTATUS_MICSTATUS_CheckFailed": 0, "CCM_MICSTATUS_MICSTATUS_CheckPassed": 1,
    "CCM_ENABLE_ENABLE_Msk": 3, "CCM_ENABLE_ENABLE_Enabled": 2, "CCM_ENABLE_ENABLE_Disabled": 0,
    "CCM_MODE_MODE_Pos": 0, "CCM_MODE_MODE_Encryption": 0, "CCM_MODE_MODE_Decryption": 1,
    "CCM_MODE_DATARATE_Pos": 16, "CCM_MODE_LENGTH_Pos": 24, "CCM_SHORTS_ENDKSGEN_CRYPT_Msk": 1,
    "AAR_ENABLE_ENABLE_Msk": 3,
    "RADIO_PCNF1_MAXLEN_Msk": 0xff, "RADIO_PCNF1_MAXLEN_Pos": 0, "RADIO_STATE_STATE_Msk": 0xf, "RADIO_STATE_STATE_Disabled": 0,
    "RADIO_SHORTS_READY_START_Msk": 1, "RADIO_SHORTS_END_DISABLE_Msk": 2, "RADIO_SHORTS_DISABLED_TXEN_Msk": 4,
    "RADIO_SHORTS_DISABLED_RXEN_Msk": 8, "RADIO_SHORTS_ADDRESS_BCSTART_Msk": 0x40,
    "RADIO_INTENSET_DISABLED_Msk": 0x10, "RADIO_INTENCLR_DISABLED_Msk": 0x10,
}


def fail(why):
    with open(os.path.join(out, "config.inc"), "w") as f:
        f.write("#define C16_NRF52_UNAVAILABLE 1\n#define C16_NRF52_WHY %s\n" % ('"' + why.replace('\\', '/').replace('"', "'").replace("\n", " ")[:300] + '"'))
    sys.exit(0)


if not all(os.path.exists(s) for s in srcs):
    fail("binding sources not found")
text = "\n".join(open(s).read() for s in srcs)
text_nc = re.sub(r"//[^\n]*|/\*.*?\*/", " ", text, flags=re.S)

# peripheral pointers:  static NRF_RADIO_Type* const nrf_radio = NRF_RADIO;
ptrs = re.findall(r"static\s+(\w+_Type)\s*\*\s*const\s+(\w+)\s*=\s*(\w+)\s*;", text_nc)
types = {}      # type -> { member: kind }      kind: "" scalar, "[]" array, { sub members } array of structs
macros = {}     # macro -> type
names = {}      # pointer variable or macro -> type
for t, var, mac in ptrs:
    types.setdefault(t, {}); macros[mac] = t; names[var] = t; names[mac] = t
# macros used directly without a pointer variable ( NRF_FICR->..., NRF_GPIO->..., NRF_P0->... )
for mac in set(re.findall(r"\b(NRF_[A-Z0-9]+|NVIC)\s*->", text_nc)):
    if mac not in names:
        t = ("NRF_" + re.sub(r"\d+$", "", mac[4:]) + "_Type") if mac != "NVIC" else "NVIC_Type"
        if mac.startswith("NRF_P") and mac[5:].isdigit():
            t = "NRF_GPIO_Type"
        types.setdefault(t, {}); macros[mac] = t; names[mac] = t
# plain mentions of a macro ( pointer initialisers of other variables )
for mac in set(re.findall(r"=\s*(NRF_[A-Z0-9]+)\s*;", text_nc)):
    if mac not in names:
        t = "NRF_" + re.sub(r"\d+$", "", mac[4:]) + "_Type"
        types.setdefault(t, {}); macros[mac] = t; names[mac] = t

# references / pointers to a peripheral block handed around:  void f( NRF_TIMER_Type& timer ) ... timer.MODE
for t, var in re.findall(r"\b(\w+_Type)\s*[&*]\s*(?:const\s+)?(\w+)\s*[,)=;]", text_nc):
    if var not in names and t in types:
        names[var] = t

for n, t in names.items():
    for m, idx, sub in re.findall(r"\b%s\s*(?:->|\.)\s*(\w+)\s*(\[[^\]]*\])?\s*(?:\.\s*(\w+))?" % re.escape(n), text_nc):
        cur = types[t].get(m, "")
        if sub:
            if not isinstance(cur, set):
                cur = set()
            cur.add(sub)
        elif idx and not isinstance(cur, set):
            cur = "[]"
        types[t][m] = cur
# registers every emulation needs, whether or not the current text mentions them
for t, ms in (("NRF_RADIO_Type", ["CRCSTATUS", "EVENTS_PAYLOAD", "PACKETPTR", "PCNF1", "SHORTS"]),
              ("NRF_CCM_Type", ["MICSTATUS", "EVENTS_ENDCRYPT", "EVENTS_ENDKSGEN", "EVENTS_ERROR", "MODE", "ENABLE", "TASKS_KSGEN", "INPTR", "OUTPTR", "CNFPTR", "SHORTS"])):
    types.setdefault(t, {})
    for m in ms:
        types[t].setdefault(m, "")

declared = set(re.findall(r"(?:constexpr|#\s*define)\s+(?:[\w:<> ]+\s+)?(\w+)", text_nc))
prefixes = sorted({t[4:-5] for t in types if t.startswith("NRF_")} | {"GPIO", "FICR", "UICR", "POWER", "NVIC", "SCB"})
consts = set()
for tok in set(re.findall(r"\b[A-Z][A-Z0-9]*_[A-Za-z0-9_]+\b", text_nc)):
    if tok in declared or tok in macros or tok.endswith("_Type") or tok.endswith("_IRQn") or tok.endswith("Handler") or tok.startswith("NVIC_") or tok.startswith("NRF_"):
        continue
    if tok.split("_")[0] in prefixes and tok.count("_") >= 2:
        consts.add(tok)
consts |= set(KNOWN)      # the harness uses these whether or not the binding's current text does
irqs = sorted(set(re.findall(r"\b\w+_IRQn\b", text_nc)))


def value(c):
    if c in KNOWN:
        return KNOWN[c]
    if c.endswith("_Pos"):
        return 0
    if c.endswith("_Msk"):
        return 1
    if c.endswith(("_Disabled", "_Disable", "_Low", "_Little")):
        return 0
    return 1


with open(os.path.join(out, "nrf.h"), "w") as f:
    f.write("/* generated by gen/C16_nrf52_stub.py from the identifiers used in %s - do not edit */\n" % nordic)
    f.write("#ifndef VERIF_C16_NRF_STUB_H\n#define VERIF_C16_NRF_STUB_H\n#include <stdint.h>\n#define __NVIC_PRIO_BITS 3\n\n")
    for t in sorted(types):
        f.write("typedef struct {\n")
        for m in sorted(types[t]):
            k = types[t][m]
            if isinstance(k, set):
                f.write("    struct { volatile uint32_t %s; } %s[ 32 ];\n" % (", ".join(sorted(k)), m))
            elif k == "[]":
                f.write("    volatile uint32_t %s[ 32 ];\n" % m)
            else:
                f.write("    volatile uint32_t %s;\n" % m)
        if not types[t]:
            f.write("    volatile uint32_t unused;\n")
        f.write("} %s;\n\n" % t)
    f.write("typedef enum { %s } IRQn_Type;\n\n" % ", ".join("%s = %d" % (n, i) for i, n in enumerate(irqs or ["Dummy_IRQn"])))
    objs = {}
    for mac in sorted(macros):
        objs[mac] = "verif_c16_" + mac.lower()
    f.write("#ifdef __cplusplus\nextern \"C\" {\n#endif\n")
    for mac in sorted(macros):
        # NRF_P0 and NRF_GPIO are the same block on hardware: one object per macro is good enough here
        f.write("extern %s %s;\n" % (macros[mac], objs[mac]))
    f.write("#ifdef __cplusplus\n}\n#endif\n")
    for mac in sorted(macros):
        f.write("#define %s ( &%s )\n" % (mac, objs[mac]))
    f.write("\n#ifdef C16_NRF_STUB_DEFINE\n")
    for mac in sorted(macros):
        f.write("%s %s;\n" % (macros[mac], objs[mac]))
    f.write("#endif\n\n")
    for fn in ("NVIC_SetPriority( IRQn_Type, uint32_t )", "NVIC_ClearPendingIRQ( IRQn_Type )", "NVIC_SetPendingIRQ( IRQn_Type )",
               "NVIC_EnableIRQ( IRQn_Type )", "NVIC_DisableIRQ( IRQn_Type )", "__set_PRIMASK( uint32_t )", "__disable_irq( void )",
               "__enable_irq( void )", "__WFI( void )", "__WFE( void )", "__SEV( void )", "__NOP( void )", "__DSB( void )", "__ISB( void )", "__DMB( void )"):
        f.write("static inline void %s {}\n" % fn)
    f.write("static inline uint32_t __get_PRIMASK( void ) { return 0; }\nstatic inline uint32_t NVIC_GetPendingIRQ( IRQn_Type ) { return 0; }\n\n")
    for c in sorted(consts):
        f.write("#define %-48s %du\n" % (c, value(c)))
    f.write("\n#endif\n")

# does the binding's translation unit compile against it?
inc = ["-I" + out, "-I" + repo, "-I" + repo + "/bluetoe/utility/include", "-I" + repo + "/bluetoe/link_layer/include",
       "-I" + repo + "/bluetoe/sm/include", "-I" + nordic + "/include", "-I" + nordic + "/nrf52/include", "-I" + nordic + "/uECC"]
r = subprocess.run(["g++", "-std=gnu++17", "-fsyntax-only", "-w", "-fpermissive", "-DNDEBUG"] + inc + [srcs[0]],
                   stdout=subprocess.PIPE, stderr=subprocess.STDOUT, text=True)
if r.returncode != 0:
    errs = [l for l in r.stdout.splitlines() if "error" in l]
    fail("nrf52.cpp does not compile against the generated stub: " + (errs[0] if errs else r.stdout[-200:]))
with open(os.path.join(out, "config.inc"), "w") as f:
    f.write("/* nrf52.cpp compiles against the generated stub */\n")
sys.exit(0)
