#!/usr/bin/env python3
"""E4 - configuration generator and *independent* reference attribute table for GATT servers (C02, C03, C04).

A configuration is written in a small grammar (svc / ch / inc below).  From it this script produces

 (a) the C++ declaration  `using server_t = bluetoe::server< ... >`  (plus the bound variables, names, descriptor data) and
 (b) the expected attribute table: handle, attribute type (16 or 128 bit), kind, owning service, group end, primary/secondary,
     readable, expected value bytes (service/include/characteristic declarations, descriptors, initial characteristic values).

(b) is computed here, in Python, from the *documented* rules only - never by asking bluetoe:
   * Core spec Vol 3 Part G 3.1-3.3: a service definition = service declaration (0x2800/0x2801, value = service UUID), then
     include declarations (0x2802, value = first handle, end group handle [, 16 bit UUID]), then characteristic definitions;
     a characteristic definition = declaration (0x2803, value = properties, value handle, UUID), value (type = characteristic
     UUID), descriptors.  Attributes are ordered by increasing handle; group end = last handle of the service definition.
   * bluetoe docs: handles count up from 1 in declaration order; attribute_handle<H> pins the service declaration / the
     characteristic declaration to H, following attributes get larger handles; attribute_handles<D,V,C> pins declaration, value
     and CCCD (C = 0: no CCCD / not pinned); descriptor order inside a characteristic is CCCD (0x2902), user description
     (0x2901), user descriptors (comment in characteristic.hpp: "The order of this list defines the order of the attributes");
     characteristics without UUID get the service UUID with the low bytes xored with the 1-based characteristic position;
     by default a GAP service (0x1800; 0x2A00 device name "Bluetoe-Server", 0x2A01 appearance 0) is appended.

usage:
   servers.py emit <builddir> <unitname>     write <builddir>/<unitname>.gen.hpp   (unitname = <harness>-<config>; bin/check `pre` hook)
   servers.py list [C02|C03|C04] [quick|thorough]
   servers.py show <config>                  print declaration + reference table
   servers.py compile-check [-j N]           compile every configuration (and every excluded one) against $VERIF_REPO or /repo
"""
import sys, os, itertools, subprocess, tempfile, concurrent.futures as cf

# ------------------------------------------------------------------------------------------------
# grammar
BASE128 = (0x8C8B4094, 0x0DE2, 0x499F, 0xA28A)


def u16(v):
    return ("16", v)


def u128(e):
    """128 bit UUID 8C8B4094-0DE2-499F-A28A-<e as 48 bit>"""
    return ("128", BASE128 + (e,))


def u128x(a, b, c, d, e):
    """arbitrary 128 bit UUID a-b-c-d-e"""
    return ("128", (a, b, c, d, e))


AUTO = ("auto",)


def ch(uuid, value, notify=False, indicate=False, name=None, desc=(), pin=None, access=None):
    """characteristic.
    value : ("u8", init) | ("u32", init) | ("arr", n) bound read/write values; ("fixed8"|"fixed16"|"fixed32", v) constants
    pin   : None | ("h", gap)  attribute_handle< next+gap >
                 | ("hs", gd, gv)      attribute_handles< D, V >      D = next+gd, V = D+1+gv
                 | ("hs", gd, gv, gc)  attribute_handles< D, V, C >   C = V+1+gc (only with notify/indicate)
    access: None | "no_read_access" | "no_write_access"
    desc  : sequence of (uuid16, bytes)"""
    return dict(k="ch", uuid=uuid, value=value, notify=notify, indicate=indicate, name=name, desc=tuple(desc), pin=pin, access=access)


def inc(uuid):
    return dict(k="inc", uuid=uuid)


def svc(uuid, *items, secondary=False, pin=None, form="option"):
    """service. pin: None | gap (attribute_handle< next+gap >); form "struct" = bluetoe::secondary_service<> spelling"""
    return dict(k="svc", uuid=uuid, items=list(items), secondary=secondary, pin=pin, form=form)


def server(*services, gap=False, mtu=247):
    """mtu: bluetoe::max_mtu_size<> of the server"""
    return dict(services=list(services), gap=gap, mtu=mtu)


# ------------------------------------------------------------------------------------------------
# UUID helpers
def uuid_bytes(u):
    """little endian bytes as transmitted"""
    if u[0] == "16":
        return [u[1] & 0xff, u[1] >> 8]
    a, b, c, d, e = u[1]
    v = (a << 96) | (b << 80) | (c << 64) | (d << 48) | e
    return [(v >> (8 * i)) & 0xff for i in range(16)]


def uuid_cpp(u, what):
    if u[0] == "16":
        return "bluetoe::%s_uuid16< 0x%04X >" % (what, u[1])
    a, b, c, d, e = u[1]
    return "bluetoe::%s_uuid< 0x%08X, 0x%04X, 0x%04X, 0x%04X, 0x%012X >" % (what, a, b, c, d, e)


# ------------------------------------------------------------------------------------------------
# phase 1: resolve relative pins into an absolute declaration (numbers that end up in the C++ text)
def n_char_attrs(c):
    return 2 + (1 if (c["notify"] or c["indicate"]) else 0) + (1 if c["name"] is not None else 0) + len(c["desc"])


def resolve(cfg):
    """returns a deep copy where every pin is absolute: svc["handle"] = H|None, ch["abs"] = None | ("h",H) | ("hs",D,V,C)"""
    out = dict(services=[], gap=cfg["gap"], mtu=cfg.get("mtu", 247))
    nxt = 1
    for s in cfg["services"]:
        s2 = dict(s)
        s2["handle"] = None if s["pin"] is None else nxt + s["pin"]
        h = s2["handle"] if s2["handle"] is not None else nxt
        nxt = h + 1
        items = []
        for it in s["items"]:
            it2 = dict(it)
            if it["k"] == "inc":
                nxt += 1
            else:
                p = it["pin"]
                cccd = it["notify"] or it["indicate"]
                if p is None:
                    it2["abs"] = None
                    nxt += n_char_attrs(it)
                elif p[0] == "h":
                    H = nxt + p[1]
                    it2["abs"] = ("h", H)
                    nxt = H + n_char_attrs(it)
                else:
                    D = nxt + p[1]
                    V = D + 1 + p[2]
                    C = 0
                    if len(p) > 3:
                        assert cccd, "CCCD handle only for characteristics with a CCCD"
                        C = V + 1 + p[3]
                    it2["abs"] = ("hs", D, V, C)
                    last_pinned = C if C else V
                    rest = n_char_attrs(it) - 2 - (1 if C else 0)
                    nxt = last_pinned + 1 + rest
            items.append(it2)
        s2["items"] = items
        out["services"].append(s2)
    return out


# ------------------------------------------------------------------------------------------------
# phase 2: reference attribute table from the absolute declaration
KIND = dict(service=0, include=1, chardecl=2, value=3, cccd=4, userdesc=5, descriptor=6)


def value_bytes(v):
    t = v[0]
    if t in ("u8", "fixed8"):
        return [v[1] & 0xff]
    if t == "fixed16":
        return [v[1] & 0xff, (v[1] >> 8) & 0xff]
    if t in ("u32", "fixed32"):
        return [(v[1] >> (8 * i)) & 0xff for i in range(4)]
    if t == "arr":
        return [(i * 7 + 1) & 0xff for i in range(v[1])]
    if t == "cstr":
        return list(v[1].encode())
    raise ValueError(t)


def properties(c):
    t = c["value"][0]
    const = t.startswith("fixed") or t == "cstr"
    rd = c["access"] != "no_read_access"
    wr = (not const) and c["access"] != "no_write_access"
    return (0x02 if rd else 0) | (0x08 if wr else 0) | (0x10 if c["notify"] else 0) | (0x20 if c["indicate"] else 0)


def gap_service():
    return dict(k="svc", uuid=u16(0x1800), secondary=False, handle=None, form="option", implicit=True, items=[
        dict(k="ch", uuid=u16(0x2A00), value=("cstr", "Bluetoe-Server"), notify=False, indicate=False, name=None, desc=(), abs=None, access=None),
        dict(k="ch", uuid=u16(0x2A01), value=("fixed16", 0), notify=False, indicate=False, name=None, desc=(), abs=None, access=None)])


def ref_table(rcfg):
    """rcfg = resolve(cfg).  -> (attrs, services); attrs = list of dict(handle, kind, type, svc, readable, value|None, ...)"""
    services = list(rcfg["services"]) + ([gap_service()] if rcfg["gap"] else [])
    attrs, svcs = [], []
    nxt = 1
    for si, s in enumerate(services):
        h = s["handle"] if s.get("handle") is not None else nxt
        assert h >= nxt, "attribute_handle<> must create increasing handles"
        first = len(attrs)
        attrs.append(dict(handle=h, kind="service", type=u16(0x2801 if s["secondary"] else 0x2800), svc=si, readable=True,
                          value=uuid_bytes(s["uuid"])))
        nxt = h + 1
        cpos = 0
        for it in s["items"]:
            if it["k"] == "inc":
                attrs.append(dict(handle=nxt, kind="include", type=u16(0x2802), svc=si, readable=True, value=None, inc_uuid=it["uuid"]))
                nxt += 1
                continue
            c = it
            cpos += 1
            cccd = c["notify"] or c["indicate"]
            a = c["abs"]
            if a is None:
                D, V, C = nxt, nxt + 1, 0
            elif a[0] == "h":
                D, V, C = a[1], a[1] + 1, 0
            else:
                D, V, C = a[1], a[2], a[3]
            assert D >= nxt and V > D and (C == 0 or C > V)
            if c["uuid"][0] == "auto":
                assert s["uuid"][0] == "128", "auto UUIDs need a 128 bit service UUID"
                b = uuid_bytes(s["uuid"])
                b[0] ^= cpos & 0xff
                b[1] ^= cpos >> 8
                cu = ("raw128", b)
            else:
                cu = c["uuid"]
            cub = cu[1] if cu[0] == "raw128" else uuid_bytes(cu)
            auto = 1 if c["uuid"][0] == "auto" else 0
            attrs.append(dict(handle=D, kind="chardecl", type=u16(0x2803), svc=si, readable=True, flags=auto,
                              value=[properties(c), V & 0xff, V >> 8] + cub))
            attrs.append(dict(handle=V, kind="value", type=cu, svc=si, readable=c["access"] != "no_read_access", flags=auto,
                              value=value_bytes(c["value"])))
            cur = V + 1
            if cccd:
                if C:
                    cur = C
                attrs.append(dict(handle=cur, kind="cccd", type=u16(0x2902), svc=si, readable=True, value=[0, 0]))
                cur += 1
            if c["name"] is not None:
                attrs.append(dict(handle=cur, kind="userdesc", type=u16(0x2901), svc=si, readable=True, value=list(c["name"].encode())))
                cur += 1
            for (du, db) in c["desc"]:
                attrs.append(dict(handle=cur, kind="descriptor", type=u16(du), svc=si, readable=True, value=list(db)))
                cur += 1
            nxt = cur
        svcs.append(dict(start=h, end=attrs[-1]["handle"], secondary=s["secondary"], uuid=s["uuid"], first=first, count=len(attrs) - first,
                         has_include=any(it["k"] == "inc" for it in s["items"])))
    # include declarations name the first service with the UUID (bluetoe: "defined by it's UUID")
    for a in attrs:
        if a["kind"] == "include":
            t = [x for x in svcs if x["uuid"] == a["inc_uuid"]]
            assert t, "included service must exist"
            t = t[0]
            a["value"] = [t["start"] & 0xff, t["start"] >> 8, t["end"] & 0xff, t["end"] >> 8] + (uuid_bytes(t["uuid"]) if t["uuid"][0] == "16" else [])
    hs = [a["handle"] for a in attrs]
    assert hs == sorted(set(hs)) and hs[0] >= 1, "reference handles must be unique and increasing"
    return attrs, svcs


# ------------------------------------------------------------------------------------------------
# C++ emission
def emit_cpp(name, cfg):
    r = resolve(cfg)
    attrs, svcs = ref_table(r)
    pre, decl = [], []
    for si, s in enumerate(r["services"]):
        opts = []
        if s["secondary"] and s["form"] == "option":
            opts.append("bluetoe::is_secondary_service")
        if s["handle"] is not None:
            opts.append("bluetoe::attribute_handle< 0x%04X >" % s["handle"])
        opts.append(uuid_cpp(s["uuid"], "service"))
        ci = 0
        for it in s["items"]:
            if it["k"] == "inc":
                opts.append("bluetoe::include_service< %s >" % uuid_cpp(it["uuid"], "service"))
                continue
            c = it
            tag = "s%dc%d" % (si, ci)
            ci += 1
            co = []
            if c["abs"] is not None:
                if c["abs"][0] == "h":
                    co.append("bluetoe::attribute_handle< 0x%04X >" % c["abs"][1])
                elif c["abs"][3]:
                    co.append("bluetoe::attribute_handles< 0x%04X, 0x%04X, 0x%04X >" % c["abs"][1:])
                else:
                    co.append("bluetoe::attribute_handles< 0x%04X, 0x%04X >" % c["abs"][1:3])
            if c["uuid"][0] != "auto":
                co.append(uuid_cpp(c["uuid"], "characteristic"))
            v = c["value"]
            if v[0] == "u8":
                pre.append("static std::uint8_t v_%s = 0x%02X;" % (tag, v[1]))
                co.append("bluetoe::bind_characteristic_value< std::uint8_t, &v_%s >" % tag)
            elif v[0] == "u32":
                pre.append("static std::uint32_t v_%s = 0x%08Xu;" % (tag, v[1]))
                co.append("bluetoe::bind_characteristic_value< std::uint32_t, &v_%s >" % tag)
            elif v[0] == "arr":
                pre.append("static std::uint8_t v_%s[ %d ] = { %s };" % (tag, v[1], ", ".join("0x%02X" % b for b in value_bytes(v))))
                pre.append("using t_%s = std::uint8_t[ %d ];" % (tag, v[1]))
                co.append("bluetoe::bind_characteristic_value< t_%s, &v_%s >" % (tag, tag))
            elif v[0] == "fixed8":
                co.append("bluetoe::fixed_uint8_value< 0x%02X >" % v[1])
            elif v[0] == "fixed16":
                co.append("bluetoe::fixed_uint16_value< 0x%04X >" % v[1])
            elif v[0] == "fixed32":
                co.append("bluetoe::fixed_uint32_value< 0x%08X >" % v[1])
            else:
                raise ValueError(v)
            if c["access"]:
                co.append("bluetoe::" + c["access"])
            if c["notify"]:
                co.append("bluetoe::notify")
            if c["indicate"]:
                co.append("bluetoe::indicate")
            if c["name"] is not None:
                pre.append('static const char n_%s[] = "%s";' % (tag, c["name"]))
                co.append("bluetoe::characteristic_name< n_%s >" % tag)
            for di, (du, db) in enumerate(c["desc"]):
                pre.append("static const std::uint8_t d_%s_%d[] = { %s };" % (tag, di, ", ".join("0x%02X" % b for b in db)))
                co.append("bluetoe::descriptor< 0x%04X, d_%s_%d, %d >" % (du, tag, di, len(db)))
            opts.append("bluetoe::characteristic<\n            " + ",\n            ".join(co) + " >")
        head = "bluetoe::secondary_service<" if (s["secondary"] and s["form"] == "struct") else "bluetoe::service<"
        decl.append("    " + head + "\n        " + ",\n        ".join(opts) + " >")
    if not r["gap"]:
        decl.append("    bluetoe::no_gap_service_for_gatt_servers")
    decl.append("    bluetoe::max_mtu_size< %d >" % r["mtu"])
    text = "using server_t = bluetoe::server<\n" + ",\n".join(decl) + " >;"
    return pre, text, attrs, svcs


def c_bytes(b, n):
    b = list(b) + [0] * (n - len(b))
    return "{ " + ",".join("0x%02x" % x for x in b) + " }"


def type_bytes(t):
    return t[1] if t[0] == "raw128" else uuid_bytes(t)


def emit_header(name, cfg):
    pre, text, attrs, svcs = emit_cpp(name, cfg)
    o = []
    o.append("// generated by /verif/gen/servers.py (configuration '%s') - do not edit" % name)
    o.append("#ifndef VERIF_GEN_SERVER_HPP\n#define VERIF_GEN_SERVER_HPP")
    o.append('#include "harness/C02_gattdb.hpp"')
    o.append("namespace gen {")
    o += pre
    o.append(text)
    o.append('static const char config_name[] = "%s";' % name)
    o.append("static const std::uint16_t server_mtu = %d;" % cfg.get("mtu", 247))
    o.append("static const char config_decl[] =")
    for l in text.split("\n"):
        o.append('    "%s\\n"' % l.replace("\\", "\\\\").replace('"', '\\"'))
    o.append("    ;")
    o.append("static const bool has_include = %s;" % ("true" if any(s["has_include"] for s in svcs) else "false"))
    o.append("static const bool has_secondary = %s;" % ("true" if any(s["secondary"] for s in svcs) else "false"))
    o.append("static const gattdb::ref_attr ref_attrs[] = {")
    for a in attrs:
        tb = type_bytes(a["type"])
        val = a["value"] if a["value"] is not None else []
        assert len(val) <= 320
        o.append("    { 0x%04x, gattdb::k_%s, %d, %s, %d, %d, %d, %d, %s }," % (
            a["handle"], a["kind"], 1 if len(tb) == 16 else 0, c_bytes(tb, 16), a["svc"], 1 if a["readable"] else 0, a.get("flags", 0), len(val), c_bytes(val, len(val))))
    o.append("};")
    o.append("static const gattdb::ref_service ref_services[] = {")
    for s in svcs:
        ub = uuid_bytes(s["uuid"])
        o.append("    { 0x%04x, 0x%04x, %d, %d, %s, %d, %d, %d }," % (s["start"], s["end"], 1 if s["secondary"] else 0, 1 if len(ub) == 16 else 0,
                                                                  c_bytes(ub, 16), s["first"], s["count"], 1 if s["has_include"] else 0))
    o.append("};")
    o.append("static const char excluded_text[] =")
    for n, why in EXCLUDED:
        o.append('    "%s: %s; "' % (n, why.replace('"', "'")))
    o.append("    ;")
    o.append("inline gattdb::Db db() { gattdb::Db d; d.name = config_name; d.decl = config_decl; d.attrs = ref_attrs; d.n_attrs = sizeof ref_attrs / sizeof ref_attrs[ 0 ];")
    o.append("    d.svcs = ref_services; d.n_svcs = sizeof ref_services / sizeof ref_services[ 0 ]; d.has_include = has_include; d.has_secondary = has_secondary; d.excluded = excluded_text; return d; }")
    o.append("}\n#endif")
    return "\n".join(o) + "\n"


# ------------------------------------------------------------------------------------------------
# the configuration family
S16 = [u16(0x1811 + i) for i in range(8)]
S128 = [u128(0x4EED5BC73C00 + i) for i in range(8)]
C16 = [u16(0x2A10 + i) for i in range(16)]
C128 = [u128(0x4EED5BC73CA0 + i) for i in range(16)]
DESC = (0x2999, (0x08, 0x15))
DESC2 = (0x2998, (0x01, 0x02, 0x03))

CONFIGS = {}
FAMILY = {"C02": {"quick": [], "thorough": []}, "C03": {"quick": [], "thorough": []}, "C04": {"quick": [], "thorough": []}}
EXCLUDED = []      # (name, reason) - declarations that do not compile; kept so that compile-check can confirm they still fail
EXCLUDED_CFG = {}


def add(name, cfg, **fam):
    """fam: C02="quick"|"thorough", ..."""
    assert name not in CONFIGS and "-" not in name
    emit_cpp(name, cfg)  # validates
    CONFIGS[name] = cfg
    for p, tier in fam.items():
        FAMILY[p]["thorough"].append(name)
        if tier == "quick":
            FAMILY[p]["quick"].append(name)


def exclude(name, cfg, why):
    EXCLUDED.append((name, why))
    EXCLUDED_CFG[name] = cfg


def b8(i=0):
    return ("u8", 0x11 + i)


def b32(i=0):
    return ("u32", 0x44332211 + i)


# ---- atoms alone / baseline ----------------------------------------------------------------------------------
add("plain16", server(svc(S16[0], ch(C16[0], b8()), ch(C16[1], b8(1)))), C02="quick", C04="thorough")
add("plain128", server(svc(S128[0], ch(C128[0], b8()), ch(AUTO, b32()))), C02="thorough", C04="quick")
add("two16", server(svc(S16[0], ch(C16[0], b8())), svc(S16[1], ch(C16[1], b8(1)))), C02="quick", C03="quick", C04="thorough")
add("three16", server(svc(S16[0], ch(C16[0], b8())), svc(S16[1], ch(C16[1], b8(1)), ch(C16[2], b32())), svc(S16[2], ch(C16[3], b8(2)))),
    C02="thorough", C03="thorough", C04="thorough")
add("withgap", server(svc(S16[0], ch(C16[0], b8())), gap=True), C02="quick", C03="thorough", C04="thorough")
# mixed 16/128 bit characteristic UUIDs in one service (the layout of the existing test read_multiple_attributes_within_mixed_size)
add("mix128", server(svc(S128[0], ch(C128[0], b8()), ch(C16[0], b8(1)), ch(C128[1], b8(2)))), C02="quick", C04="thorough")
add("mix16", server(svc(S16[0], ch(C16[0], b8()), ch(C128[0], b8(1)), ch(C16[1], b8(2)), ch(C16[2], b8(3)))), C02="thorough", C04="thorough")
# same characteristic UUID, different value sizes (Read By Type by characteristic UUID)
add("vals", server(svc(S16[0], ch(C16[0], b8()), ch(C16[0], b32()), ch(C16[0], b8(1)), ch(C16[0], ("arr", 3)), ch(C16[0], ("arr", 20)), ch(C16[0], ("arr", 30)),
                       ch(C16[0], ("fixed16", 0x1234)))), C02="quick", C04="thorough")
# services of mixed UUID size
add("svcmix", server(svc(S16[0], ch(C16[0], b8())), svc(S128[0], ch(AUTO, b8(1))), svc(S16[1], ch(C16[1], b8(2))), svc(S128[1], ch(C128[0], b8(3)))),
    C02="quick", C03="quick", C04="thorough")
# fixed handles: gaps between services
add("gapsvc", server(svc(S16[0], ch(C16[0], b8())), svc(S16[1], ch(C16[1], b8(1)), pin=5), svc(S16[2], ch(C16[2], b8(2)), pin=9)),
    C02="quick", C03="quick", C04="quick")
add("gapfirst", server(svc(S16[0], ch(C16[0], b8()), pin=3), svc(S16[1], ch(C16[1], b8(1)))), C02="thorough", C03="quick", C04="thorough")
# fixed handles: gaps inside a service
add("gapchar", server(svc(S16[0], ch(C16[0], b8(), pin=("h", 4)), ch(C16[1], b8(1), pin=("hs", 3, 1)),
                          ch(C16[2], b32(), notify=True, pin=("hs", 2, 2, 2)), ch(C16[3], b8(2)))), C02="quick", C04="quick")
# the gap layout of the design-time probe: Read By Type <<Characteristic>> 3..0x10 must not return 0x20
add("gapprobe", server(svc(S16[0], ch(C16[0], b8()), ch(C16[1], b8(1), pin=("h", 0x20 - 4)))), C02="quick", C04="thorough")
# descriptors / CCCD / names
add("desc", server(svc(S16[0], ch(C16[0], b8(), notify=True, name="Foo", desc=[DESC]), ch(C16[1], b32(), indicate=True),
                       ch(C16[2], b8(1), notify=True, indicate=True, name="Barbaz"), ch(C16[3], b8(2), desc=[DESC]), ch(C16[4], b8(3), name="Qux"))),
    C02="quick", C04="quick")
add("descgap", server(svc(S128[0], ch(AUTO, b8(), notify=True, name="Foo", pin=("hs", 2, 1)), ch(C16[1], b32(), indicate=True, name="Ba", desc=[DESC], pin=("hs", 3, 0, 1)),
                          ch(C128[2], b8(1), name="Quux", pin=("hs", 1, 3)), ch(C16[3], ("fixed8", 0x42)), pin=2)), C02="quick", C04="quick")
add("noread", server(svc(S16[0], ch(C16[0], b8()), ch(C16[0], b8(1), access="no_read_access"), ch(C16[0], b8(2), access="no_write_access"), ch(C16[1], ("fixed32", 0xFFFF0001)))),
    C02="quick", C04="thorough")
# secondary services
add("p_s", server(svc(S16[0], ch(C16[0], b8())), svc(S16[1], ch(C16[1], b8(1)), secondary=True)), C03="quick", C04="thorough")
add("s_p", server(svc(S16[0], ch(C16[0], b8()), secondary=True), svc(S16[1], ch(C16[1], b8(1)))), C03="quick", C04="thorough")
add("p_s_p", server(svc(S16[0], ch(C16[0], b8())), svc(S16[1], ch(C16[1], b8(1)), secondary=True), svc(S16[2], ch(C16[2], b8(2)))),
    C02="quick", C03="quick", C04="thorough")
add("p_s_p128", server(svc(S128[0], ch(AUTO, b8())), svc(S128[1], ch(AUTO, b8(1)), secondary=True), svc(S128[2], ch(AUTO, b8(2)))),
    C03="quick", C04="thorough")
add("secmix", server(svc(S16[0], ch(C16[0], b8())), svc(S128[0], ch(AUTO, b8(1)), secondary=True), svc(S16[1], ch(C16[1], b8(2))),
                     svc(S16[2], ch(C16[2], b8(3)), secondary=True), svc(S128[1], ch(AUTO, b8(4)))), C02="thorough", C03="quick", C04="thorough")
add("secgap", server(svc(S16[0], ch(C16[0], b8())), svc(S16[1], ch(C16[1], b8(1)), secondary=True, pin=4), svc(S16[2], ch(C16[2], b8(2)), pin=6)),
    C03="quick", C04="thorough")
add("secsame", server(svc(S16[0], ch(C16[0], b8())), svc(S16[0], ch(C16[1], b8(1)), secondary=True), svc(S16[0], ch(C16[2], b8(2))),
                      svc(S128[0], ch(AUTO, b8(3)), secondary=True), svc(S128[0], ch(AUTO, b8(4)))), C03="quick", C04="thorough")
add("s_only", server(svc(S16[0], ch(C16[0], b8()), secondary=True)), C03="thorough", C04="thorough")
add("p_s_gapsvc", server(svc(S16[0], ch(C16[0], b8())), svc(S16[1], ch(C16[1], b8(1)), secondary=True), gap=True), C03="thorough", C04="thorough")
# include_service (included service declared before the including one, so that only the including service is affected by C04's defect)
add("incl", server(svc(S16[0], ch(C16[0], b8()), secondary=True), svc(S16[1], inc(S16[0]), ch(C16[1], b8(1)))), C02="quick", C03="quick", C04="quick")
add("incl128", server(svc(S128[0], ch(AUTO, b8()), secondary=True), svc(S128[1], inc(S128[0]), ch(AUTO, b8(1)))), C03="thorough", C04="thorough")
add("inclonly", server(svc(S16[0], ch(C16[0], b8()), secondary=True), svc(S16[1], inc(S16[0]))), C03="thorough", C04="thorough")
add("inclfwd", server(svc(S16[1], inc(S16[0]), ch(C16[1], b8(1))), svc(S16[0], ch(C16[0], b8()), secondary=True)), C03="quick", C04="quick")
add("inclfixed", server(svc(S16[0], ch(C16[0], b8()), secondary=True, pin=7), svc(S16[1], inc(S16[0]), ch(C16[1], b8(1)))), C03="thorough", C04="quick")
add("incl2", server(svc(S16[0], ch(C16[0], b8()), secondary=True), svc(S128[0], ch(AUTO, b8(2)), secondary=True),
                    svc(S16[1], inc(S16[0]), inc(S128[0]), ch(C16[1], b8(1), notify=True), ch(C16[2], b32()))), C04="quick", C03="thorough")
add("inclprim", server(svc(S16[0], ch(C16[0], b8())), svc(S16[1], inc(S16[0]), ch(C16[1], b8(1), pin=("h", 3))), svc(S16[2], ch(C16[2], b8(2)))), C04="thorough")

# long values and a large server MTU: the 8 bit pair length of Read By Type (value truncated to 253 octets)
add("bigval", server(svc(S16[0], ch(C16[0], ("arr", 250)), ch(C16[0], ("arr", 253)), ch(C16[0], ("arr", 254)), ch(C16[0], ("arr", 300)), ch(C16[1], ("arr", 255)), ch(C128[0], ("arr", 256))),
                     mtu=512), C02="quick")
# 128 bit service UUIDs whose little endian encoding starts / ends with the encoding of a 16 bit service UUID of the same server
add("fbtvpre", server(svc(S16[0], ch(C16[0], b8())), svc(u128x(0x8C8B4094, 0x0DE2, 0x499F, 0xA28A, 0x4EED5BC70000 | S16[0][1]), ch(C16[1], b8(1))),
                      svc(u128x((S16[0][1] << 16) | 0x4094, 0x0DE2, 0x499F, 0xA28A, 0x4EED5BC73C55), ch(C16[2], b8(2))),
                      svc(u128x((S16[1][1] << 16) | 0x4094, 0x0DE2, 0x499F, 0xA28A, 0x4EED5BC70000 | S16[1][1]), ch(C16[3], b8(3)), secondary=True),
                      svc(S16[1], ch(C16[4], b8(4)))), C03="quick", C04="thorough")
# nested includes: an included service that has include declarations itself (with and without characteristics in between)
add("nest16", server(svc(S16[0], ch(C16[0], b8()), secondary=True), svc(S16[1], inc(S16[0]), ch(C16[1], b8(1)), secondary=True), svc(S16[2], inc(S16[0]), secondary=True),
                     svc(S16[3], inc(S16[1]), inc(S16[2]), ch(C16[2], b8(2)))), C04="quick", C03="thorough")
add("nest128", server(svc(S128[0], ch(AUTO, b8()), secondary=True), svc(S128[1], inc(S128[0]), secondary=True), svc(S128[2], inc(S128[1]), inc(S128[0]), ch(AUTO, b8(1), notify=True), secondary=True),
                      svc(S128[3], inc(S128[2]), inc(S128[1]), ch(AUTO, b8(2))), svc(S16[0], ch(C16[0], b8(3)))), C04="quick", C03="thorough")
# a service with a fixed handle *and* include declarations (the included services have no fixed handles)
add("inclpin", server(svc(S16[0], ch(C16[0], b8()), secondary=True), svc(S16[3], ch(C16[3], b8(4)), secondary=True), svc(S16[1], inc(S16[0]), ch(C16[1], b8(1)), pin=4),
                      svc(S128[0], inc(S16[3]), inc(S16[0]), ch(AUTO, b8(2), pin=("h", 2)), pin=3), svc(S16[2], ch(C16[2], b8(3)))), C02="quick", C03="thorough", C04="quick")

# larger thorough-only layouts
add("biggap", server(svc(S16[0], ch(C16[0], b8()), pin=0x1f), svc(S128[0], ch(AUTO, b32(), notify=True, name="Abc", pin=("hs", 0x10, 0x0f, 0x08)), ch(C16[1], b8(1), pin=("h", 0x11)), pin=0x0c),
                     svc(S16[1], ch(C128[0], ("arr", 20), indicate=True, desc=[DESC], pin=("hs", 0, 9))), gap=True), C02="thorough", C03="thorough", C04="thorough")
add("long", server(*[svc((S16 + S128)[i * 3 % 16], *[ch((C16 + C128)[(i * 5 + j * 3) % 32], (b8(i + j), b32(j), ("arr", 3), ("fixed16", 0x100 + j))[(i + j) % 4],
                                                         notify=(i + j) % 3 == 0, name=("L%d%d" % (i, j)) if (i * j) % 4 == 1 else None) for j in range(1 + i % 4)],
                         secondary=(i == 3)) for i in range(6)]), C02="thorough", C03="thorough", C04="thorough")
add("sec128gap", server(svc(S128[0], ch(AUTO, b8()), secondary=True, pin=2), svc(S128[1], ch(AUTO, b8(1)), pin=1), svc(S128[2], ch(C16[0], b8(2)), secondary=True, pin=3), gap=True),
    C03="thorough", C04="thorough")
add("inclchain", server(svc(S16[0], ch(C16[0], b8()), secondary=True), svc(S16[1], inc(S16[0]), ch(C16[1], b8(1)), secondary=True), svc(S16[2], inc(S16[1]), inc(S16[0]), ch(C16[2], b8(2))),
                        svc(S16[3], ch(C16[3], b8(3)))), C03="thorough", C04="thorough")

# ---- pair-wise family over characteristic level atoms (C04) ------------------------------------------------------
F_UUID = ["16", "128", "auto"]
F_VAL = ["u8", "u32", "arr20", "fixed8"]
F_CCCD = ["none", "notify", "indicate", "both"]
F_EXTRA = ["none", "name", "desc", "name+desc"]
F_PIN = ["none", "h", "hs2", "hs3"]
FACTORS = [F_UUID, F_VAL, F_CCCD, F_EXTRA, F_PIN]


def pairwise(factors):
    """greedy covering array: every pair of values of two different factors occurs in at least one row (deterministic)"""
    need = set()
    for i, j in itertools.combinations(range(len(factors)), 2):
        for a in factors[i]:
            for b in factors[j]:
                need.add((i, a, j, b))
    rows = []
    idx = list(itertools.combinations(range(len(factors)), 2))
    allrows = [(r, [(i, r[i], j, r[j]) for i, j in idx]) for r in itertools.product(*factors)]
    while need:
        best, bp, bc = None, None, -1
        for r, pairs in allrows:
            c = sum(1 for p in pairs if p in need)
            if c > bc:
                best, bp, bc = r, pairs, c
        rows.append(best)
        need.difference_update(bp)
    return rows


def char_from_row(r, k):
    uu, val, cccd, extra, pin = r
    uuid = C16[k % 16] if uu == "16" else C128[k % 16] if uu == "128" else AUTO
    value = b8(k) if val == "u8" else b32(k) if val == "u32" else ("arr", 20) if val == "arr20" else ("fixed8", 0x40 + k)
    has_cccd = cccd != "none"
    p = None
    if pin == "h":
        p = ("h", 1 + k % 3)
    elif pin == "hs2":
        p = ("hs", k % 3, 1 + k % 2)
    elif pin == "hs3":
        p = ("hs", 1 + k % 2, k % 3, 1 + k % 2) if has_cccd else ("hs", 1 + k % 2, 2)
    return ch(uuid, value, notify=cccd in ("notify", "both"), indicate=cccd in ("indicate", "both"),
              name=("N%d" % k) if "name" in extra else None, desc=[DESC] if "desc" in extra else [], pin=p)


ROWS = pairwise(FACTORS)
for gi in range(0, len(ROWS), 3):
    grp = ROWS[gi:gi + 3]
    chars = [char_from_row(r, gi + i) for i, r in enumerate(grp)]
    # service level atoms rotate: 128 bit UUID is needed as soon as one characteristic has an auto UUID
    k = gi // 3
    su = S128[k % 8]
    s = svc(su, *chars, pin=(None, 2, None, 5)[k % 4], secondary=(k % 5 == 3))
    lead = svc(S16[k % 8], ch(C16[15], b8(9)))
    tail = svc(S16[(k + 1) % 8], ch(C16[14], ("fixed16", 0xBEEF)), pin=(None, None, 3)[k % 3])
    fam = {"C04": "quick" if k < 4 else "thorough"}
    if k % 5 != 3:
        fam["C02"] = "thorough"
    else:
        fam["C03"] = "thorough"
    add("pw%02d" % k, server(lead, s, tail, gap=(k % 4 == 1)), **fam)

# ---- declarations that do not compile (excluded; `compile-check` confirms) ---------------------------------------
exclude("x_secstruct", server(svc(S16[0], ch(C16[0], b8())), svc(S16[1], ch(C16[1], b8(1)), secondary=True, form="struct")),
        "bluetoe::secondary_service<> used as a server option does not compile (no handle mapping specialisation for the derived struct); the option form service< is_secondary_service, ... > is used instead")
exclude("x_twodesc", server(svc(S16[0], ch(C16[0], b8(), desc=[DESC, DESC2]))),
        "two bluetoe::descriptor<> options in one characteristic do not compile (generate_attribute is only specialised for a single descriptor per group)")


def family(pid, tier):
    return list(FAMILY[pid]["thorough" if tier == "thorough" else "quick"])


# ------------------------------------------------------------------------------------------------
def compile_one(name, cfg, repo, verif):
    pre, text, attrs, svcs = emit_cpp(name, cfg)
    src = "#include <cstdint>\n#include <cstddef>\n#include <iterator>\n#include <algorithm>\n#include <bluetoe/server.hpp>\n" + "\n".join(pre) + "\n" + text + \
          "\nint main() { server_t s; server_t::channel_data_t< bluetoe::details::link_state > c; std::uint8_t in[] = { 0x04, 1, 0, 0xff, 0xff }, out[ 247 ]; std::size_t n = 247;" \
          " s.l2cap_input( in, 5, out, n, c ); return (int)n == 0; }\n"
    with tempfile.TemporaryDirectory(prefix="gencc") as d:
        p = os.path.join(d, "t.cpp")
        open(p, "w").write(src)
        r = subprocess.run(["g++", "-std=gnu++17", "-O0", "-DNDEBUG", "-fno-access-control", "-w", "-fsyntax-only", "-I" + repo, "-I" + repo + "/bluetoe/utility/include",
                            "-I" + repo + "/bluetoe/link_layer/include", "-I" + repo + "/bluetoe/sm/include", p], stdout=subprocess.PIPE, stderr=subprocess.STDOUT, text=True)
        return name, r.returncode == 0, r.stdout


def main(argv):
    verif = os.path.dirname(os.path.dirname(os.path.abspath(__file__)))
    if len(argv) >= 3 and argv[0] == "emit":
        bdir, unit = argv[1], argv[2]
        name = unit.split("-", 1)[1]
        if name not in CONFIGS:
            print("unknown configuration", name)
            return 1
        with open(os.path.join(bdir, unit + ".gen.hpp"), "w") as f:
            f.write(emit_header(name, CONFIGS[name]))
        return 0
    if argv and argv[0] == "list":
        if len(argv) >= 2:
            for n in family(argv[1], argv[2] if len(argv) > 2 else "thorough"):
                print(n)
        else:
            for n in CONFIGS:
                print(n, " ".join(p for p in FAMILY if n in FAMILY[p]["thorough"]))
        return 0
    if len(argv) >= 2 and argv[0] == "show":
        cfg = CONFIGS.get(argv[1]) or EXCLUDED_CFG[argv[1]]
        pre, text, attrs, svcs = emit_cpp(argv[1], cfg)
        print("\n".join(pre))
        print(text)
        for a in attrs:
            print("  %04x %-10s type=%s svc=%d rd=%d value=%s" % (a["handle"], a["kind"], bytes(reversed(type_bytes(a["type"]))).hex(), a["svc"], a["readable"],
                                                               bytes(a["value"] or []).hex()))
        for s in svcs:
            print("  service %04x..%04x %s uuid=%s" % (s["start"], s["end"], "secondary" if s["secondary"] else "primary", bytes(reversed(uuid_bytes(s["uuid"]))).hex()))
        return 0
    if argv and argv[0] == "compile-check":
        jobs = int(argv[argv.index("-j") + 1]) if "-j" in argv else 16
        repo = os.environ.get("VERIF_REPO", "/repo")
        rc = 0
        with cf.ThreadPoolExecutor(jobs) as ex:
            futs = [ex.submit(compile_one, n, c, repo, verif) for n, c in list(CONFIGS.items()) + list(EXCLUDED_CFG.items())]
            for f in futs:
                n, ok, log = f.result()
                want = n in CONFIGS
                flag = "ok" if ok == want else "UNEXPECTED"
                if ok != want:
                    rc = 1
                print("%-12s %s %s" % (n, "compiles" if ok else "does not compile", flag))
                if not ok and want:
                    print(log[-3000:])
                if not ok and not want:
                    first = [l for l in log.split("\n") if "error" in l][:1]
                    print("      ", (first or [""])[0][:220])
        return rc
    print(__doc__)
    return 2


if __name__ == "__main__":
    sys.exit(main(sys.argv[1:]))
