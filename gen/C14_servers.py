#!/usr/bin/env python3
"""C14: generator of server<> declarations for the advertising / scan response data check.

usage (called by bin/check as `pre` step):   gen/C14_servers.py <build-dir> <unit-name>
writes <build-dir>/C14_gen_<shard>.hpp where <shard> is the text after the last '-' of <unit-name>
(q0..q3 = shards of the quick family, t0..t11 = shards of the additional thorough family).

For every configuration the header contains
  * the C++ declaration `using srv_<i> = bluetoe::server< ... >;`
  * an *independently computed* reference record (name, expected UUID lists in wire format, appearance value,
    connection interval range, supplied custom bytes) - nothing of it is derived from bluetoe's meta programming.

Configuration tuple:
  name   : None | length (0..40), text = first <length> characters of a fixed 40 character alphabet
  app    : 0 = no advertise_appearance, 1 = advertise_appearance + appearance::heart_rate_belt (0x0341),
           2 = advertise_appearance without a device appearance (unknown, 0x0000)
  lists  : 'none' (no_list_of_service_uuids) | dict(m16, k16, m128, k128) with m in 'auto' | 'explicit'
           auto: k services with 16/128 bit UUIDs are declared, the list options are not given
           explicit: list_of_16_bit_service_uuids< k UUIDs > is given (one unrelated service is declared)
  rng    : 0 = none, 1 = peripheral_connection_interval_range<> (0xffff,0xffff), 2 = < 0x0006, 0x0c80 >
  gap    : 1 = default GAP service (0x1800 is part of the automatic list), 0 = no_gap_service_for_gatt_servers
  adv    : ('auto',) | ('custom', L) | ('runtime', L)      L = number of supplied octets
  scan   : same
"""
import sys, os, itertools

ALPHA = "ABCDEFGHIJKLMNOPQRSTUVWXYZabcdefghijklmn"
APP_VALUE = {0: 0, 1: 0x0341, 2: 0x0000}
RANGES = {1: (0xFFFF, 0xFFFF), 2: (0x0006, 0x0C80)}


def uuid16(i):        # i = 0..14
    return 0x1101 + 0x0111 * i


def uuid128_parts(i):
    return (0x111393DD + 0x11000000 * i, 0x01D2 + i, 0x40D6, 0xA0A0, 0xE9B1A56A1191 + 0x66 * i)


def uuid128_wire(i):
    a, b, c, d, e = uuid128_parts(i)
    big = a.to_bytes(4, "big") + b.to_bytes(2, "big") + c.to_bytes(2, "big") + d.to_bytes(2, "big") + e.to_bytes(6, "big")
    return bytes(reversed(big))


def custom_bytes(L, salt):
    # looks like AD structures at the start but is just bytes for the check
    return bytes(((7 * i + salt) % 251) + 1 for i in range(L))


class Cfg:
    def __init__(self, name=None, app=0, lists="none", rng=0, gap=1, adv=("auto",), scan=("auto",), order=0):
        self.name, self.app, self.lists, self.rng, self.gap, self.adv, self.scan, self.order = name, app, lists, rng, gap, adv, scan, order

    def key(self):
        l = self.lists
        ls = "none" if l == "none" else "%s%d.%s%d" % (l["m16"][0], l["k16"], l["m128"][0], l["k128"])
        return "n%s.a%d.l-%s.r%d.g%d.adv-%s.scan-%s.o%d" % (
            "x" if self.name is None else str(self.name), self.app, ls, self.rng, self.gap,
            "".join(str(x) for x in self.adv), "".join(str(x) for x in self.scan), self.order)

    def server_key(self):
        # runtime custom data is a run time value: configurations that differ only in it share one server type
        adv = ("runtime",) if self.adv[0] == "runtime" else self.adv
        scan = ("runtime",) if self.scan[0] == "runtime" else self.scan
        return Cfg(self.name, self.app, self.lists, self.rng, self.gap, adv, scan, self.order).key()

    def valid(self):
        l = self.lists
        # custom_advertising_data< Size, Data > needs an array, and arrays have at least one element
        if (self.adv[0] == "custom" and self.adv[1] < 1) or (self.scan[0] == "custom" and self.scan[1] < 1):
            return False
        if l == "none":
            return True
        # a server without any service is not a sensible declaration
        n_services = (l["k16"] if l["m16"] == "auto" else 0) + (l["k128"] if l["m128"] == "auto" else 0)
        if l["m16"] == "explicit" or l["m128"] == "explicit":
            n_services += 1
        return n_services + self.gap > 0

    def complexity(self):
        l = self.lists
        c = 0 if self.name is None else 1 + self.name
        c += 2 * (self.app != 0) + 2 * (self.rng != 0) + (self.gap == 0)
        if l != "none":
            c += 1 + l["k16"] + 3 * l["k128"] + (l["m16"] == "explicit") + (l["m128"] == "explicit")
        c += 3 * (self.adv[0] != "auto") + 3 * (self.scan[0] != "auto") + self.order
        return c


def L(m16="auto", k16=0, m128="auto", k128=0):
    return dict(m16=m16, k16=k16, m128=m128, k128=k128)


def fit_names(app, lists, rng):
    """name lengths that make the complete payload end exactly at / one short of / one beyond 29, 31 octets"""
    rest = 3 + (4 if app else 0) + (6 if rng else 0)
    if lists != "none":
        k16 = lists["k16"] + (1 if lists["m16"] == "auto" else 0)  # + GAP
        rest += (2 + 2 * k16) if k16 else 0
        rest += 18 if lists["k128"] else 0
    out = set()
    for target in (28, 29, 30, 31, 32):
        n = target - rest - 2
        if 1 <= n <= 31:
            out.add(n)
    return sorted(out)


def quick_family():
    out = []
    # A: name x appearance x range, no lists
    for name in [None, 0, 1, 2, 3, 10, 20, 22, 23, 24, 25, 26, 27, 28, 29, 30, 31]:
        for app in (0, 1):
            for rng in (0, 1):
                out.append(Cfg(name=name, app=app, rng=rng))
    # B: automatic 16 bit list, 0..15 declared services (+GAP)
    for k in range(0, 16):
        for gap in (1, 0):
            out.append(Cfg(lists=L(k16=k), gap=gap))
        out.append(Cfg(name=3, app=1, lists=L(k16=k)))
    # C: explicit 16 bit list
    for k in range(0, 16):
        out.append(Cfg(lists=L(m16="explicit", k16=k)))
        out.append(Cfg(name=5, lists=L(m16="explicit", k16=k), rng=1))
    # D: 128 bit lists
    for m128 in ("auto", "explicit"):
        for k128 in (0, 1, 2):
            for k16 in (0, 1, 4):
                for name in (None, 4):
                    out.append(Cfg(name=name, lists=L(k16=k16, m128=m128, k128=k128)))
                out.append(Cfg(lists=L(k16=k16, m128=m128, k128=k128), gap=0))
            out.append(Cfg(app=1, rng=2, lists=L(k16=1, m128=m128, k128=k128)))
    # E: names that make everything fit exactly / miss by one
    for app in (0, 1):
        for lists in (L(k16=1), L(k16=5), L(m16="explicit", k16=3), L(k16=0, k128=1), L(m16="explicit", k16=11)):
            for rng in (0, 1):
                for n in fit_names(app, lists, rng):
                    out.append(Cfg(name=n, app=app, lists=lists, rng=rng))
    # F: custom / runtime custom data
    for Lc in (0, 1, 7, 30, 31, 32, 40):
        out.append(Cfg(adv=("custom", Lc)))
        out.append(Cfg(scan=("custom", Lc)))
        out.append(Cfg(adv=("runtime", Lc), scan=("runtime", (Lc * 3 + 1) % 41)))
    out.append(Cfg(adv=("runtime", -1), scan=("runtime", -1)))   # never set: default is empty
    out.append(Cfg(name=9, app=1, lists=L(k16=2, k128=1), rng=1, adv=("custom", 12), scan=("custom", 31)))
    out.append(Cfg(name=9, app=1, lists=L(k16=2, k128=1), rng=1, adv=("runtime", 31), scan=("auto",)))
    out.append(Cfg(name=9, app=1, lists=L(k16=2, k128=1), rng=1, adv=("auto",), scan=("runtime", 31)))
    # option order must not matter
    out.append(Cfg(name=9, app=1, lists=L(m16="explicit", k16=2, m128="explicit", k128=1), rng=1, order=1))
    out.append(Cfg(name=27, app=2, lists=L(k16=1), rng=2, order=1))
    return out


def thorough_family():
    out = []
    for name in [None] + list(range(0, 34)) + [40]:
        for app in (0, 1, 2):
            for rng in (0, 1, 2):
                out.append(Cfg(name=name, app=app, rng=rng))
    l16 = [L(k16=0), L(k16=1), L(k16=3), L(k16=7), L(k16=12), L(k16=15), L(m16="explicit", k16=2), L(m16="explicit", k16=15)]
    for name in (None, 1, 5, 9, 13, 17, 21, 25, 29):
        for app in (0, 1):
            for base in l16:
                for m128, k128 in (("auto", 0), ("auto", 1), ("auto", 2), ("explicit", 1), ("explicit", 2)):
                    for rng in (0, 1):
                        for gap in (1, 0):
                            lists = dict(base, m128=m128, k128=k128)
                            out.append(Cfg(name=name, app=app, lists=lists, rng=rng, gap=gap))
            for rng in (0, 1):
                out.append(Cfg(name=name, app=app, lists="none", rng=rng, gap=0))
    for app in (0, 1):
        for k16 in range(0, 16):
            for m16 in ("auto", "explicit"):
                for k128 in (0, 1):
                    for rng in (0, 1):
                        lists = L(m16=m16, k16=k16, k128=k128)
                        for n in fit_names(app, lists, rng):
                            out.append(Cfg(name=n, app=app, lists=lists, rng=rng))
    for La in (0, 1, 2, 3, 15, 29, 30, 31, 32, 33, 40):
        for Ls in (0, 2, 31, 32):
            out.append(Cfg(adv=("custom", La), scan=("custom", Ls)))
            out.append(Cfg(adv=("runtime", La), scan=("runtime", Ls)))
        out.append(Cfg(adv=("custom", La), scan=("runtime", La)))
        out.append(Cfg(adv=("runtime", La), scan=("custom", La)))
    return out


def dedup(cfgs, seen=None):
    seen = set() if seen is None else seen
    out = []
    for c in cfgs:
        if not c.valid() or c.key() in seen:
            continue
        seen.add(c.key())
        out.append(c)
    return out


def family(which):
    q = dedup(quick_family())
    if which == "q":
        return q
    seen = set(c.key() for c in q)
    return dedup(thorough_family(), seen)


NSHARDS = dict(q=4, t=12)


def shard(which, idx):
    cfgs = sorted(family(which), key=lambda c: (c.complexity(), c.key()))
    return cfgs[idx::NSHARDS[which]]


# ---------------------------------------------------------------------------------------------------------------------
def cxx_bytes(b):
    return "{ " + ", ".join("0x%02x" % x for x in b) + " }" if b else "{ 0 }"


def emit(cfgs, path, shard_name):
    o = []
    w = o.append
    w("// generated by gen/C14_servers.py - shard %s, %d configurations - do not edit" % (shard_name, len(cfgs)))
    w("namespace c14gen {")
    for n in sorted(set(c.name for c in cfgs if c.name is not None)):
        w('static constexpr char name_%d[] = "%s";' % (n, ALPHA[:n]))
    cust = set()
    for c in cfgs:
        for side, salt in ((c.adv, 3), (c.scan, 101)):
            if side[0] in ("custom", "runtime") and side[1] >= 0:
                cust.add((side[1], salt))
    for Lc, salt in sorted(cust):
        # one more element than used for L == 0: an array of size 0 is not allowed
        data = custom_bytes(Lc, salt)
        w("static constexpr std::uint8_t data_%d_%d[ %d ] = %s;" % (Lc, salt, max(Lc, 1), cxx_bytes(data)))

    types = {}
    for c in cfgs:
        sk = c.server_key()
        if sk in types:
            continue
        tname = "srv_%d" % len(types)
        types[sk] = tname
        opts_services, opts_name, opts_app, opts_lists, opts_rng, opts_gap, opts_adv = [], [], [], [], [], [], []
        l = c.lists
        if l == "none":
            opts_services.append("bluetoe::service< bluetoe::service_uuid16< 0x7777 > >")
            opts_lists.append("bluetoe::no_list_of_service_uuids")
        else:
            if l["m16"] == "auto":
                for i in range(l["k16"]):
                    opts_services.append("bluetoe::service< bluetoe::service_uuid16< 0x%04x > >" % uuid16(i))
            else:
                opts_lists.append("bluetoe::list_of_16_bit_service_uuids< %s >" % ", ".join(
                    "bluetoe::service_uuid16< 0x%04x >" % uuid16(i) for i in range(l["k16"])))
            if l["m128"] == "auto":
                for i in range(l["k128"]):
                    opts_services.append("bluetoe::service< bluetoe::service_uuid< 0x%08X, 0x%04X, 0x%04X, 0x%04X, 0x%012X > >" % uuid128_parts(i))
            else:
                opts_lists.append("bluetoe::list_of_128_bit_service_uuids< %s >" % ", ".join(
                    "bluetoe::service_uuid< 0x%08X, 0x%04X, 0x%04X, 0x%04X, 0x%012X >" % uuid128_parts(i) for i in range(l["k128"])))
            if l["m16"] == "explicit":
                # a 16 bit service that is not in the explicit list (would show up if the automatic list were used)
                opts_services.append("bluetoe::service< bluetoe::service_uuid16< 0x7777 > >")
            elif l["m128"] == "explicit":
                opts_services.append("bluetoe::service< bluetoe::service_uuid< 0x77777777, 0x7777, 0x7777, 0x7777, 0x777777777777 > >")
        if c.name is not None:
            opts_name.append("bluetoe::server_name< name_%d >" % c.name)
        if c.app:
            opts_app.append("bluetoe::advertise_appearance")
        if c.app == 1:
            opts_app.append("bluetoe::appearance::heart_rate_belt")
        if c.rng == 1:
            opts_rng.append("bluetoe::peripheral_connection_interval_range<>")
        elif c.rng == 2:
            opts_rng.append("bluetoe::peripheral_connection_interval_range< 0x%04x, 0x%04x >" % RANGES[2])
        if not c.gap:
            opts_gap.append("bluetoe::no_gap_service_for_gatt_servers")
        if c.adv[0] == "custom":
            opts_adv.append("bluetoe::custom_advertising_data< %d, data_%d_3 >" % (c.adv[1], c.adv[1]))
        elif c.adv[0] == "runtime":
            opts_adv.append("bluetoe::runtime_custom_advertising_data")
        if c.scan[0] == "custom":
            opts_adv.append("bluetoe::custom_scan_response_data< %d, data_%d_101 >" % (c.scan[1], c.scan[1]))
        elif c.scan[0] == "runtime":
            opts_adv.append("bluetoe::runtime_custom_scan_response_data")
        if c.order == 0:
            opts = opts_services + opts_name + opts_app + opts_lists + opts_rng + opts_gap + opts_adv
        else:
            opts = opts_adv + opts_gap + opts_rng + opts_lists + opts_app[::-1] + opts_name + opts_services
        w("using %s = bluetoe::server<\n    %s >;" % (tname, ",\n    ".join(opts)))
    w("} // namespace c14gen")
    w("")
    w("static const c14::Spec c14_specs[] = {")
    for c in cfgs:
        l = c.lists
        exp16, req16, exp128, req128 = [], 0, [], 0
        if l != "none":
            exp16 = [uuid16(i) for i in range(l["k16"])]
            req16 = len(exp16)
            if l["m16"] == "auto" and c.gap:
                exp16.append(0x1800)              # GAP service, appended by the library; accepted but not demanded
            exp128 = [uuid128_wire(i) for i in range(l["k128"])]
            req128 = len(exp128)
        def side(s, salt):
            kind = {"auto": 0, "custom": 1, "runtime": 2}[s[0]]
            if kind == 0:
                return "0, nullptr, 0"
            if s[1] < 0:
                return "%d, nullptr, -1" % kind
            return "%d, c14gen::data_%d_%d, %d" % (kind, s[1], salt, s[1])
        name_txt = "nullptr" if c.name is None else '"%s"' % ALPHA[:c.name]
        w('  { "%s", %d, %s, %d, 0x%04x,' % (c.key(), -1 if c.name is None else c.name, name_txt, 1 if c.app else 0, APP_VALUE[c.app]))
        w("    %d, %d, { %s }," % (len(exp16), req16, ", ".join("0x%04x" % u for u in exp16) if exp16 else "0"))
        w("    %d, %d, { %s }," % (len(exp128), req128, ", ".join(cxx_bytes(u) for u in exp128) if exp128 else "{ 0 }"))
        rmin, rmax = RANGES.get(c.rng, (0, 0))
        w("    %d, 0x%04x, 0x%04x," % (1 if c.rng else 0, rmin, rmax))
        w("    %s, %s," % (side(c.adv, 3), side(c.scan, 101)))
        w("    &c14::runner< c14gen::%s, %d, %d >::call }," % (types[c.server_key()], {"auto": 0, "custom": 1, "runtime": 2}[c.adv[0]], {"auto": 0, "custom": 1, "runtime": 2}[c.scan[0]]))
    w("};")
    w("static const char* const c14_shard = \"%s\";" % shard_name)
    w("static const unsigned c14_server_types = %d;" % len(types))
    with open(path, "w") as f:
        f.write("\n".join(o) + "\n")


def main():
    bdir, unit = sys.argv[1], sys.argv[2]
    sh = unit.rsplit("-", 1)[-1]
    which, idx = sh[0], int(sh[1:])
    cfgs = shard(which, idx)
    emit(cfgs, os.path.join(bdir, "C14_gen_%s.hpp" % sh), sh)
    return 0


if __name__ == "__main__":
    if len(sys.argv) == 2 and sys.argv[1] == "--count":
        print("quick", len(family("q")), "thorough-extra", len(family("t")))
        sys.exit(0)
    sys.exit(main())
