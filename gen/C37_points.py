#!/usr/bin/env python3
"""C37: table of P-256 test points with the expected answer of is_valid_public_key, computed with Python integers.

    python3 gen/C37_points.py > harness/C37_points.hpp          (the generated header is committed)

Validity (Core Vol 3 Part H 2.3.5.6.1 / FIPS 186-4): 0 <= x, y < p and y^2 = x^3 - 3x + b (mod p); the curve has prime
order, so every such point is in the group.  The harness re-decides every entry with its own (C++) curve check and stops
with a harness error if the two disagree, and derives the single-bit-flip neighbours of the 'base' entries itself.
"""
p = 0xFFFFFFFF00000001000000000000000000000000FFFFFFFFFFFFFFFFFFFFFFFF
a = p - 3
b = 0x5AC635D8AA3A93E7B3EBBD55769886BC651D06B0CC53B0F63BCE3C3E27D2604B
n = 0xFFFFFFFF00000000FFFFFFFFFFFFFFFFBCE6FAADA7179E84F3B9CAC2FC632551
G = (0x6B17D1F2E12C4247F8BCE6E563A440F277037D812DEB33A0F4A13945D898C296,
     0x4FE342E2FE1A7F9B8EE7EB4A7C0F9E162BCE33576B315ECECBB6406837BF51F5)


def on_curve(x, y):
    return 0 <= x < p and 0 <= y < p and (y * y - (x * x * x + a * x + b)) % p == 0


def add(P, Q):
    if P is None:
        return Q
    if Q is None:
        return P
    if P[0] == Q[0] and (P[1] + Q[1]) % p == 0:
        return None
    if P == Q:
        lam = (3 * P[0] * P[0] + a) * pow(2 * P[1], -1, p) % p
    else:
        lam = (Q[1] - P[1]) * pow(Q[0] - P[0], -1, p) % p
    x = (lam * lam - P[0] - Q[0]) % p
    return (x, (lam * (P[0] - x) - P[1]) % p)


def mul(k, P):
    R = None
    while k:
        if k & 1:
            R = add(R, P)
        P = add(P, P)
        k >>= 1
    return R


def sqrt_mod(v):
    """p = 3 mod 4"""
    r = pow(v, (p + 1) // 4, p)
    return r if r * r % p == v % p else None


# --- roots of a cubic over F_p (to find points with a prescribed small y) ---------------------------------------
def ptrim(f):
    while f and f[-1] == 0:
        f.pop()
    return f


def pmod(f, g):
    f = f[:]
    inv = pow(g[-1], -1, p)
    while len(f) >= len(g):
        c = f[-1] * inv % p
        s = len(f) - len(g)
        for i, gi in enumerate(g):
            f[s + i] = (f[s + i] - c * gi) % p
        ptrim(f)
        if not f:
            break
    return f


def pmulmod(f, g, m):
    r = [0] * (len(f) + len(g) - 1)
    for i, fi in enumerate(f):
        for j, gj in enumerate(g):
            r[i + j] = (r[i + j] + fi * gj) % p
    return pmod(ptrim(r), m)


def ppowmod(f, e, m):
    r = [1]
    while e:
        if e & 1:
            r = pmulmod(r, f, m)
        f = pmulmod(f, f, m)
        e >>= 1
    return r


def pgcd(f, g):
    while g:
        f, g = g, pmod(f, g)
    inv = pow(f[-1], -1, p)
    return [c * inv % p for c in f]


def psub(f, g):
    r = [0] * max(len(f), len(g))
    for i, c in enumerate(f):
        r[i] = c
    for i, c in enumerate(g):
        r[i] = (r[i] - c) % p
    return ptrim(r)


def roots(f):
    """all roots in F_p of the square-free polynomial f (coefficients low to high)"""
    g = pgcd(f, psub(ppowmod([0, 1], p, f), [0, 1]))       # product of the linear factors
    out = []

    def split(h, shift):
        if len(h) == 1:
            return
        if len(h) == 2:
            out.append((-h[0] * pow(h[1], -1, p)) % p)
            return
        while True:
            t = psub(ppowmod([shift, 1], (p - 1) // 2, h), [1])
            d = pgcd(h, t) if t else h
            shift += 1
            if 1 < len(d) < len(h):
                split(d, shift)
                q = h
                # q = h / d
                quo, rem = [], h[:]
                inv = pow(d[-1], -1, p)
                quo = [0] * (len(h) - len(d) + 1)
                while len(rem) >= len(d):
                    c = rem[-1] * inv % p
                    s = len(rem) - len(d)
                    quo[s] = c
                    for i, di in enumerate(d):
                        rem[s + i] = (rem[s + i] - c * di) % p
                    ptrim(rem)
                split(ptrim(quo), shift)
                return

    split(g, 1)
    return sorted(out)


# --- table -------------------------------------------------------------------------------------------------------
rows = []   # (class, base?, x, y, valid)


def row(cls, x, y, base=False):
    assert 0 <= x < 2 ** 256 and 0 <= y < 2 ** 256
    rows.append((cls, base, x, y, on_curve(x, y)))


for k in range(1, 65):
    P = mul(k, G)
    assert on_curve(*P)
    row("kG", P[0], P[1], base=True)

for k in (n - 1, n - 2, n - 64, (n - 1) // 2, (n + 1) // 2, 2 ** 255 % n, 0xDEADBEEF * 2 ** 200 % n):
    P = mul(k, G)
    row("kG-large", P[0], P[1], base=True)
assert mul(n, G) is None and mul(n - 1, G) == (G[0], p - G[1])

samples = [
    # Core Vol 3 Part H Appendix D / Vol 2 Part G 7.1.2.1 (P-256 sample data set 1): public keys A and B
    (0x20b003d2f297be2c5e2c83a7e9f9a5b9eff49111acf4fddbcc0301480e359de6, 0xdc809c49652aeb6d63329abf5a52155c766345c28fed3024741c8ed01589d28b),
    (0x1ea1f0f01faf1d9609592284f19e4c0047b58afd8615a69f559077b22faaa190, 0x4c55f33e429dad377356703a9ab85160472d1130e28e36765f89aff915b1214a),
]
assert mul(0x3f49f6d4a3c55f3874c9b3e3d2103f504aff607beb40b7995899b8a6cd3c1abd, G) == samples[0]
assert mul(0x55188b3d32f6bb9a900afcfbeed4e72a59cb9ac2f19d7cfb6b4fdd49f47fc5fd, G) == samples[1]
for x, y in samples:
    row("core-sample-key", x, y, base=True)

# negation and coordinate games around a few valid points
for k in (1, 2, 3, 7, 64):
    x, y = mul(k, G)
    row("negated", x, p - y)
    row("swapped", y, x)
    row("y-plus-1", x, (y + 1) % p)
    row("x-plus-1", (x + 1) % p, y)
    row("y-zero", x, 0)
    row("x-zero", 0, y)
    row("x-equals-y", x, x)

# the all-zero encoding and other degenerate encodings
row("zero-point", 0, 0)
row("all-ones", 2 ** 256 - 1, 2 ** 256 - 1)
row("p-p", p, p)
row("x-is-p", p, G[1])
row("y-is-p", G[0], p)
row("x-all-ones", 2 ** 256 - 1, G[1])
row("y-all-ones", G[0], 2 ** 256 - 1)

# valid points with x = 0, 1, 2, ... (those that exist): they are valid, and  x + p  (same residue, not canonical) must be rejected
found = 0
x = 0
while found < 6:
    y = sqrt_mod((x * x * x + a * x + b) % p)
    if y is not None:
        for yy in (y, p - y):
            row("small-x-valid", x, yy, base=(found < 2))
            assert x + p < 2 ** 256
            row("x-ge-p-congruent-to-valid", x + p, yy)
        found += 1
    x += 1

# valid points with small y and  y + p
found = 0
y = 1
while found < 4:
    for x in roots([(b - y * y) % p, a, 0, 1]):
        assert on_curve(x, y)
        row("small-y-valid", x, y, base=(found < 2))
        row("y-ge-p-congruent-to-valid", x, y + p)
        row("small-y-valid", x, p - y)
        found += 1
    y += 1

# largest coordinates: walk down from p - 1
found = 0
x = p - 1
while found < 3:
    y = sqrt_mod((x * x * x + a * x + b) % p)
    if y is not None:
        row("large-x-valid", x, y)
        found += 1
    x -= 1

print("// generated by gen/C37_points.py -- do not edit.  P-256 test points, coordinates most significant octet first.")
print("// %d entries; %d valid" % (len(rows), sum(1 for r in rows if r[4])))
print("#ifndef VERIF_C37_POINTS_HPP")
print("#define VERIF_C37_POINTS_HPP")
print("namespace c37 {")
print("struct point_case { const char* cls; bool base; const char* x; const char* y; bool valid; };")
print("static const point_case point_cases[] = {")
for cls, base, x, y, valid in rows:
    print('    { "%s", %s, "%064x", "%064x", %s },' % (cls, "true" if base else "false", x, y, "true" if valid else "false"))
print("};")
print("}")
print("#endif")
