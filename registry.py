"""Registry of checks: property id -> harness units, level, bounds.  Read by bin/check and tools/mkmanifest.py.
Every property has its own file registry.d/Cxx.py that calls reg( "Cxx", ... )."""
import os, glob

CHECKS = {}
NOT_CLAIMED = {}


def reg(pid, **kw):
    for k in ("level", "technique", "rule", "units"):
        assert k in kw, "%s: missing %s" % (pid, k)
    assert kw["level"] in ("exploration", "model_checking", "fault_enumeration")
    CHECKS[pid] = kw


def not_claimed(pid, reason):
    NOT_CLAIMED[pid] = reason


_here = os.path.dirname(os.path.abspath(__file__))
for _f in sorted(glob.glob(os.path.join(_here, "registry.d", "C*.py"))):
    exec(compile(open(_f).read(), _f, "exec"), dict(reg=reg, not_claimed=not_claimed))
