/* Host stand-in for the Nordic SDK header <nrf.h>  (verification only; lives in /verif/stubs, never in /repo).
 *
 * It declares just enough of the SDK's names for
 *      bluetoe/bindings/nordic/include/bluetoe/nrf.hpp
 *      bluetoe/bindings/nordic/nrf52/security_tool_box.cpp
 * to compile with g++ on x86-64.  Two peripherals have behaviour, everything else is inert storage:
 *
 *   NRF_ECB   writing TASKS_STARTECB runs one AES-128 block encryption on the 48 byte structure ECBDATAPTR points to
 *             ( KEY[16] | CLEARTEXT[16] | CIPHERTEXT[16], all most significant octet first as in FIPS-197 ) and sets
 *             EVENTS_ENDECB.  The AES used is the emulator's own (stubs/nrf_emul.cpp).
 *   NRF_RNG   writing TASKS_START latches the next octet of a harness controlled stream into VALUE and sets
 *             EVENTS_VALRDY.  Polling EVENTS_VALRDY / EVENTS_ENDECB without a started task would spin forever on
 *             hardware; the emulator turns that into verif_nrf::stuck (C++ exception) after a poll horizon.
 *
 * ECBDATAPTR is a 32 bit register, security_tool_box.cpp casts a data pointer to std::uint32_t: build with
 * `-fpermissive -no-pie` so that static data lives below 4 GB (verif_nrf::check_low_memory() verifies that).
 * The harness side API is in stubs/nrf_emul.hpp.
 */
#ifndef VERIF_STUB_NRF_H
#define VERIF_STUB_NRF_H

#include <stdint.h>

#define __NVIC_PRIO_BITS 3

#ifdef __cplusplus

namespace verif_nrf {
    /* a register without behaviour */
    typedef volatile uint32_t reg32;

    struct ecb_start_task { void operator=( uint32_t value ); };
    struct rng_start_task { void operator=( uint32_t value ); };
    struct rng_stop_task  { void operator=( uint32_t value ); };

    /* an event register that is polled in busy loops: reads are counted so that an endless loop becomes an exception */
    struct polled_event
    {
        uint32_t value;
        operator uint32_t();
        void operator=( uint32_t v ) { value = v; }
    };

    struct rng_value_reg { operator uint32_t() const; };
}

struct NRF_ECB_Type
{
    verif_nrf::ecb_start_task TASKS_STARTECB;
    verif_nrf::reg32          TASKS_STOPECB;
    verif_nrf::polled_event   EVENTS_ENDECB;
    verif_nrf::polled_event   EVENTS_ERRORECB;
    verif_nrf::reg32          INTENSET;
    verif_nrf::reg32          INTENCLR;
    uint32_t                  ECBDATAPTR;
};

struct NRF_RNG_Type
{
    verif_nrf::rng_start_task TASKS_START;
    verif_nrf::rng_stop_task  TASKS_STOP;
    verif_nrf::polled_event   EVENTS_VALRDY;
    verif_nrf::reg32          SHORTS;
    verif_nrf::reg32          INTENSET;
    verif_nrf::reg32          INTENCLR;
    verif_nrf::reg32          CONFIG;
    verif_nrf::rng_value_reg  VALUE;
};

/* inert register blocks: only the members nrf.hpp touches in inline functions */
struct NRF_CLOCK_Type
{
    verif_nrf::reg32 TASKS_HFCLKSTART, TASKS_HFCLKSTOP, TASKS_LFCLKSTART, TASKS_LFCLKSTOP;
    verif_nrf::reg32 EVENTS_HFCLKSTARTED, EVENTS_LFCLKSTARTED;
    verif_nrf::reg32 LFCLKSRC;
};

struct NRF_RTC_Type
{
    verif_nrf::reg32 TASKS_START, TASKS_STOP, TASKS_CLEAR;
    verif_nrf::reg32 EVTEN, EVTENSET, EVTENCLR;
};

struct NRF_RADIO_Type  { verif_nrf::reg32 unused; };
struct NRF_TIMER_Type  { verif_nrf::reg32 unused; };
struct NRF_TEMP_Type   { verif_nrf::reg32 unused; };
struct NRF_CCM_Type    { verif_nrf::reg32 unused; };
struct NRF_AAR_Type    { verif_nrf::reg32 unused; };
struct NRF_PPI_Type    { verif_nrf::reg32 unused; };
struct NRF_GPIOTE_Type { verif_nrf::reg32 unused; };
struct NVIC_Type       { verif_nrf::reg32 unused; };

namespace verif_nrf {
    extern NRF_ECB_Type    ecb;
    extern NRF_RNG_Type    rng;
    extern NRF_CLOCK_Type  clock;
    extern NRF_RTC_Type    rtc0;
    extern NRF_RADIO_Type  radio;
    extern NRF_TIMER_Type  timer0, timer1;
    extern NRF_TEMP_Type   temp;
    extern NRF_CCM_Type    ccm;
    extern NRF_AAR_Type    aar;
    extern NRF_PPI_Type    ppi;
    extern NRF_GPIOTE_Type gpiote;
    extern NVIC_Type       nvic;
}

#define NRF_ECB     ( &verif_nrf::ecb )
#define NRF_RNG     ( &verif_nrf::rng )
#define NRF_CLOCK   ( &verif_nrf::clock )
#define NRF_RTC0    ( &verif_nrf::rtc0 )
#define NRF_RADIO   ( &verif_nrf::radio )
#define NRF_TIMER0  ( &verif_nrf::timer0 )
#define NRF_TIMER1  ( &verif_nrf::timer1 )
#define NRF_TEMP    ( &verif_nrf::temp )
#define NRF_CCM     ( &verif_nrf::ccm )
#define NRF_AAR     ( &verif_nrf::aar )
#define NRF_PPI     ( &verif_nrf::ppi )
#define NRF_GPIOTE  ( &verif_nrf::gpiote )
#define NVIC        ( &verif_nrf::nvic )

#endif /* __cplusplus */

/* bit field constants used by nrf.hpp (values as in the nRF52 MDK) */
#define RTC_EVTEN_COMPARE0_Pos          (16UL)
#define RTC_EVTEN_COMPARE0_Enabled      (1UL)
#define RTC_EVTEN_COMPARE1_Pos          (17UL)
#define RTC_EVTEN_COMPARE1_Enabled      (1UL)
#define RTC_EVTEN_OVRFLW_Pos            (1UL)
#define RTC_EVTEN_OVRFLW_Enabled        (1UL)

#define CLOCK_LFCLKSRCCOPY_SRC_Pos      (0UL)
#define CLOCK_LFCLKSRCCOPY_SRC_RC       (0UL)
#define CLOCK_LFCLKSRCCOPY_SRC_Xtal     (1UL)
#define CLOCK_LFCLKSRCCOPY_SRC_Synth    (2UL)

#endif
