// Harness side API of the nRF register emulation (see stubs/nrf.h).  Link stubs/nrf_emul.cpp.
#ifndef VERIF_STUB_NRF_EMUL_HPP
#define VERIF_STUB_NRF_EMUL_HPP

#include <cstdint>
#include "nrf.h"

namespace verif_nrf {

    // thrown out of a register access when the code under test would spin forever on hardware
    // (polling an event whose task was never started) or when the random stream's horizon is exceeded
    struct stuck
    {
        const char* what;
    };

    // environment of the RNG peripheral: the octet stream.  `next` may throw `stuck` to enforce a horizon.
    typedef std::uint8_t ( *rng_source )( void* ctx );
    void set_rng_source( rng_source next, void* ctx );

    // all peripherals back to reset state, counters to zero (the random source stays)
    void reset();

    // measured activity
    extern std::uint64_t rng_octets;   // octets handed out by VALUE
    extern std::uint64_t ecb_blocks;   // AES blocks run by TASKS_STARTECB

    // the emulated ECB block's AES-128 (FIPS-197 octet order), exposed so that a harness can cross check it
    void ecb_aes128( const std::uint8_t key[ 16 ], const std::uint8_t in[ 16 ], std::uint8_t out[ 16 ] );

    // true if static data of this executable is addressable through a 32 bit register (needs -no-pie)
    bool check_low_memory();
}

#endif
