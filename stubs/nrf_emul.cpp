// Behaviour of the emulated nRF peripherals (ECB, RNG) declared in stubs/nrf.h.
#include "nrf_emul.hpp"
#include <cstring>

namespace verif_nrf {

NRF_ECB_Type    ecb;
NRF_RNG_Type    rng;
NRF_CLOCK_Type  clock;
NRF_RTC_Type    rtc0;
NRF_RADIO_Type  radio;
NRF_TIMER_Type  timer0, timer1;
NRF_TEMP_Type   temp;
NRF_CCM_Type    ccm;
NRF_AAR_Type    aar;
NRF_PPI_Type    ppi;
NRF_GPIOTE_Type gpiote;
NVIC_Type       nvic;

std::uint64_t rng_octets = 0;
std::uint64_t ecb_blocks = 0;

namespace {
    rng_source    source     = nullptr;
    void*         source_ctx = nullptr;
    bool          rng_running = false;
    std::uint8_t  rng_latched = 0;
    unsigned      idle_polls  = 0;

    const unsigned poll_horizon = 64;

    void rng_produce()
    {
        if ( !source )
            throw stuck{ "RNG started without a random source" };

        rng_latched = source( source_ctx );
        rng.EVENTS_VALRDY.value = 1;
    }

    // ---- AES-128, computed S-box (multiplicative inverse in GF(2^8) followed by the affine map) ----
    std::uint8_t sbox[ 256 ], mul2[ 256 ], mul3[ 256 ];
    bool         sbox_ready = false;

    std::uint8_t gmul( std::uint8_t a, std::uint8_t b )
    {
        std::uint8_t r = 0;
        for ( int i = 0; i != 8; ++i )
        {
            if ( b & 1 ) r ^= a;
            const bool hi = a & 0x80;
            a <<= 1;
            if ( hi ) a ^= 0x1b;
            b >>= 1;
        }
        return r;
    }

    void make_sbox()
    {
        for ( int x = 0; x != 256; ++x )
        {
            std::uint8_t inv = 0;
            for ( int y = 1; y != 256 && x; ++y )
                if ( gmul( std::uint8_t( x ), std::uint8_t( y ) ) == 1 ) { inv = std::uint8_t( y ); break; }

            std::uint8_t s = 0;
            for ( int bit = 0; bit != 8; ++bit )
            {
                const int v = ( ( inv >> bit ) ^ ( inv >> ( ( bit + 4 ) & 7 ) ) ^ ( inv >> ( ( bit + 5 ) & 7 ) )
                              ^ ( inv >> ( ( bit + 6 ) & 7 ) ) ^ ( inv >> ( ( bit + 7 ) & 7 ) ) ^ ( 0x63 >> bit ) ) & 1;
                s |= std::uint8_t( v << bit );
            }
            sbox[ x ] = s;
            mul2[ x ] = gmul( std::uint8_t( x ), 2 );
            mul3[ x ] = gmul( std::uint8_t( x ), 3 );
        }
        sbox_ready = true;
    }
}

void ecb_aes128( const std::uint8_t key[ 16 ], const std::uint8_t in[ 16 ], std::uint8_t out[ 16 ] )
{
    if ( !sbox_ready ) make_sbox();

    // key schedule, column major state as in FIPS-197
    std::uint8_t rk[ 11 ][ 16 ];
    std::memcpy( rk[ 0 ], key, 16 );
    std::uint8_t rcon = 1;
    for ( int r = 1; r != 11; ++r )
    {
        const std::uint8_t* p = rk[ r - 1 ];
        std::uint8_t*       n = rk[ r ];
        n[ 0 ] = p[ 0 ] ^ sbox[ p[ 13 ] ] ^ rcon;
        n[ 1 ] = p[ 1 ] ^ sbox[ p[ 14 ] ];
        n[ 2 ] = p[ 2 ] ^ sbox[ p[ 15 ] ];
        n[ 3 ] = p[ 3 ] ^ sbox[ p[ 12 ] ];
        for ( int i = 4; i != 16; ++i ) n[ i ] = p[ i ] ^ n[ i - 4 ];
        rcon = mul2[ rcon ];
    }

    std::uint8_t s[ 16 ];
    for ( int i = 0; i != 16; ++i ) s[ i ] = in[ i ] ^ rk[ 0 ][ i ];

    for ( int r = 1; r != 11; ++r )
    {
        std::uint8_t t[ 16 ];
        // SubBytes + ShiftRows: state byte (row, col) is s[ 4 * col + row ]
        for ( int col = 0; col != 4; ++col )
            for ( int row = 0; row != 4; ++row )
                t[ 4 * col + row ] = sbox[ s[ 4 * ( ( col + row ) & 3 ) + row ] ];

        if ( r != 10 )
        {
            for ( int col = 0; col != 4; ++col )
            {
                const std::uint8_t a0 = t[ 4 * col ], a1 = t[ 4 * col + 1 ], a2 = t[ 4 * col + 2 ], a3 = t[ 4 * col + 3 ];
                s[ 4 * col + 0 ] = mul2[ a0 ] ^ mul3[ a1 ] ^ a2 ^ a3;
                s[ 4 * col + 1 ] = a0 ^ mul2[ a1 ] ^ mul3[ a2 ] ^ a3;
                s[ 4 * col + 2 ] = a0 ^ a1 ^ mul2[ a2 ] ^ mul3[ a3 ];
                s[ 4 * col + 3 ] = mul3[ a0 ] ^ a1 ^ a2 ^ mul2[ a3 ];
            }
        }
        else
            std::memcpy( s, t, 16 );

        for ( int i = 0; i != 16; ++i ) s[ i ] ^= rk[ r ][ i ];
    }

    std::memcpy( out, s, 16 );
}

void ecb_start_task::operator=( std::uint32_t value )
{
    if ( !value ) return;

    std::uint8_t* const p = reinterpret_cast< std::uint8_t* >( static_cast< std::uintptr_t >( ecb.ECBDATAPTR ) );
    std::uint8_t out[ 16 ];
    ecb_aes128( p, p + 16, out );
    std::memcpy( p + 32, out, 16 );
    ++ecb_blocks;
    ecb.EVENTS_ENDECB.value = 1;
}

void rng_start_task::operator=( std::uint32_t value )
{
    if ( !value ) return;

    rng_running = true;
    if ( !rng.EVENTS_VALRDY.value )
        rng_produce();
}

void rng_stop_task::operator=( std::uint32_t value )
{
    if ( value ) rng_running = false;
}

rng_value_reg::operator std::uint32_t() const
{
    ++rng_octets;
    return rng_latched;
}

polled_event::operator std::uint32_t()
{
    // the RNG is free running once started: a cleared VALRDY comes back with the next octet
    if ( !value && this == &rng.EVENTS_VALRDY && rng_running )
        rng_produce();

    if ( value )
    {
        idle_polls = 0;
        return value;
    }

    // ERRORECB is legitimately polled while zero, but only together with ENDECB in the same loop
    if ( ++idle_polls > poll_horizon )
    {
        idle_polls = 0;
        throw stuck{ "busy loop on an event register whose task was not started" };
    }

    return 0;
}

void set_rng_source( rng_source next, void* ctx )
{
    source     = next;
    source_ctx = ctx;
}

void reset()
{
    rng_running = false;
    rng_latched = 0;
    idle_polls  = 0;
    rng_octets  = 0;
    ecb_blocks  = 0;
    rng.EVENTS_VALRDY.value   = 0;
    ecb.EVENTS_ENDECB.value   = 0;
    ecb.EVENTS_ERRORECB.value = 0;
    ecb.ECBDATAPTR            = 0;
}

bool check_low_memory()
{
    static std::uint8_t probe[ 16 ];
    return reinterpret_cast< std::uintptr_t >( &probe[ 0 ] ) < 0xffff0000ull
        && reinterpret_cast< std::uintptr_t >( &ecb ) < 0xffff0000ull;
}

}
