import os, importlib.util

_V = os.path.dirname(os.path.abspath(reg.__code__.co_filename))
_spec = importlib.util.spec_from_file_location("verif_gen_servers", os.path.join(_V, "gen", "servers.py"))
_servers = importlib.util.module_from_spec(_spec)
_spec.loader.exec_module(_servers)


def _variants(prop):
    def f(tier):
        return [dict(name=n, defs=['CFG_HEADER="%s-%s.gen.hpp"' % (dict(C02="C02_discovery", C03="C03_primary_services", C04="C04_handles")[prop], n)])
                for n in _servers.family(prop, tier)]
    return f


reg("C02",
    level="exploration",
    technique="exhaustive product enumeration over the real bluetoe::server<>: every generated server declaration (gen/servers.py, independent "
              "reference attribute table) x {Find Information, Read By Type, Read By Group Type} x every (start,end) handle pair x every "
              "attribute type (16 bit, 128 bit, base-UUID expansion, unknown) x MTU, each case continued like a GATT client (start := last+1) "
              "to decide the enumeration closure",
    rule="one evaluation = one (request kind, start, end, type, MTU) case = the request plus its continuation requests sent through l2cap_input() and "
         "compared with the reference table; a class = request kind x type width x position of start/end (on attribute / in gap / beyond last / 0xFFFF / "
         "invalid) x first response (error code, one entry, several entries)",
    bound="quick: %d server declarations; thorough: %d; each with all (start,end) in {0..last+2, 0xFFFF}^2, all attribute types of the database + "
          "0x2800-0x2803, 0x2901, 0x2902, unknown 16/128 bit (16 bit types also in 128 bit form), MTU in {23,24,48,65,247}; Read By Type at MTU 23 also with every 16 bit type of the "
          "database in its Bluetooth base UUID form with exactly one of the 16 octets changed; the max_mtu_size<512> server with 250..300 octet values "
          "also with MTU in {255,256,257,258,259,260,512}" % (
              len(_servers.family("C02", "quick")), len(_servers.family("C02", "thorough"))),
    units=[dict(src="harness/C02_discovery.cpp", pre=["python3", "gen/servers.py", "emit"], variants=_variants("C02"))],
    quick_deadline=40, thorough_deadline=500,
    assumptions=[
        "configuration quantifier = the grammar of gen/servers.py (primary/secondary, 16/128 bit UUIDs, attribute_handle<>/attribute_handles<> gaps at "
        "service and characteristic level, also combined with include_service, value sizes 1/2/3/4/20/30/250..300, max_mtu_size 247/512, notify/indicate, name, descriptor, include_service, GAP service), not all C++ programs",
        "declarations that do not compile are excluded: " + "; ".join("%s (%s)" % e for e in _servers.EXCLUDED),
        "demanded: returned handles inside start..end, exist, type matches, ascending, Attribute Not Found only if no (readable) match exists, and the "
        "client iteration start := last+1 (Read By Group Type: end group handle + 1) enumerates every matching attribute exactly once; the size of a "
        "single response and which attributes share one response are not demanded",
        "invalid ranges (start 0, start > end) only have to return no out-of-range attribute; Read By Group Type for anything but 16 bit <<Primary Service>> "
        "may be refused with any error (Unsupported Group Type is pinned by read_by_group_type_tests)",
        "Read By Type: a matching but unreadable attribute may be skipped or reported with an error naming its handle",
        "Read By Group Type is not evaluated on servers with secondary services (C03 decides primary/secondary)",
        "a data response has to consist of whole entries (length byte consistent with the octets that follow); how many octets of a long value are "
        "returned is not demanded",
        "values returned by Read By Type are not compared here (C04 compares declaration values, C08 lengths)"],
    design_ref="3/C02")
