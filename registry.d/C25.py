import os as _os
_repo = _os.environ.get("VERIF_REPO", "/repo")
_verif = _os.path.dirname(_os.path.dirname(_os.path.abspath(__file__))) if "__file__" in globals() else "/verif"

reg("C25",
    level="exploration",
    technique="exhaustive product enumeration: every received advertising channel PDU of a field alphabet x every run-time configuration is delivered to the real "
              "link_layer<> (restored from a snapshot taken while an advertisement is pending) and compared with a reference predicate; the scan request half runs the "
              "real nRF52 radio state machine (nrf52_radio_base on a recording fake of its Hardware parameter, host build against a stub nrf.h) under the real link layer",
    rule="one evaluation = one received PDU in one configuration, on a restored byte image; outcome = connection entered (ll_connection_requested callback, "
         "schedule_connection_event) / scan response transmitted (Hardware::configure_final_transmit) / advertising continued; classes = (configuration, first reason "
         "of the reference to reject | accept) x observed outcome",
    bound="PDU type 0..15 x header flag bits {0,0x10,0x20} x length field {0,11,12,13,33,34,35,37} x reported size {0,2,14,35,36,min(36,len+2)} x AdvA {own, bit 0 off, bit 47 off} x "
          "RxAdd x TxAdd x InitA {listed, unlisted, directed peer, peer one bit off} (110592 PDUs per configuration; LLData always valid); configurations: own address {random static, "
          "public} x connection filter {off, on, on + peer listed} x directed target {public, random, withdrawn while pending, never set}; 4-type advertiser additionally: every ordered pair (type on air, type selected by change_advertising<>() before the answer arrives) x own address x connection filter {off,on}; quick: undirected (software white list), "
          "directed, 4-type advertiser; nRF52 binding: undirected, scannable x own address x scan filter x connection filter x resolving_address_invalid() {false,true} (13824 PDUs each); "
          "thorough: + radio-kept white list, scannable, non-connectable, no white list, all under ASan; nRF52: + non-connectable, directed",
    units=[dict(src="harness/C25_connect_ll.cpp", link_ll=True,
                variants=[dict(name="undirected_swlist", defs=["C25_CFG=1"]),
                          dict(name="directed", defs=["C25_CFG=3"]),
                          dict(name="multitype", defs=["C25_CFG=6"], args=["--part", "base"]),
                          dict(name="multitype_switch", defs=["C25_CFG=6"], args=["--part", "switch"])]),
           # thorough: every configuration once more under AddressSanitizer (received PDU in an exact size heap block)
           dict(src="harness/C25_connect_ll.cpp", link_ll=True, asan=True, thorough_only=True,
                variants=[dict(name="asan_undirected_swlist", defs=["C25_CFG=1"]),
                          dict(name="asan_undirected_radiolist", defs=["C25_CFG=2"]),
                          dict(name="asan_directed", defs=["C25_CFG=3"]),
                          dict(name="asan_scannable", defs=["C25_CFG=4"]),
                          dict(name="asan_nonconn", defs=["C25_CFG=5"]),
                          dict(name="asan_multitype", defs=["C25_CFG=6"], args=["--part", "base"]),
                          dict(name="asan_multitype_switch", defs=["C25_CFG=6"], args=["--part", "switch"]),
                          dict(name="asan_nolist", defs=["C25_CFG=7"])]),
           dict(src="harness/C25_scan_nrf52.cpp", link_ll=True,
                flags=["-I" + _verif + "/harness/C25_stub",
                       "-I" + _repo + "/bluetoe/bindings/nordic/include",
                       "-I" + _repo + "/bluetoe/bindings/nordic/nrf52/include"],
                variants=[dict(name="undirected", defs=["C25_CFG=1"]),
                          dict(name="scannable", defs=["C25_CFG=2"]),
                          dict(name="nonconn", defs=["C25_CFG=3"], thorough_only=True),
                          dict(name="directed", defs=["C25_CFG=4"], thorough_only=True)])],
    quick_deadline=40, thorough_deadline=300,
    assumptions=[
        "the property is read in both directions (answered / connected <=> reference predicate); the 'valid request is served' direction is pinned by existing tests "
        "and has its own signatures (connect:valid-request-ignored, scan:valid-request-not-answered)",
        "the advertising type that decides about a request is the one of the PDU that was transmitted (read from the PDU type handed to the radio); "
        "change_advertising<>() is documented to take effect only with the next advertising PDU",
        "timing parameters, channel map and hop of the CONNECT_IND are always valid (their validation is C20/C22)",
        "header bits 4/5 (RFU, ChSel) must not influence the decision; length octets with bits 6/7 set are not enumerated (RFU in 4.x, part of the length in 5.x)",
        "link_layer<> never sees scan requests (no caller of advertiser::is_valid_scan_request exists): the scan half is checked only for the nRF52 binding "
        "(nrf52_radio_base::is_valid_scan_request via its interrupt handler), without link layer encryption (no PDU gap, default PDU layout); nrf51 binding and the "
        "encrypted PDU layout are not covered",
        "Hardware::resolving_address_invalid() is an environment choice {false,true}: true models 'identity resolving enabled (experimental set_identity_resolving_key) and the "
        "sender's address did not resolve'; in that environment only the 'only if' direction is demanded",
        "nrf52_radio_base leaves its state members uninitialised in the constructor; the harness places the link layer in zero initialised storage like a static object",
        "directed advertising without a target never advertises (checked: run() schedules nothing), so nothing can be received; target withdrawn while an advertisement is "
        "pending must not connect",
        "thorough tier: reads behind the reported PDU size are an ASan violation (exact size heap block per reported size); the quick tier runs without ASan to keep compilation short"],
    design_ref="3/C25")
