_C01_CONFIGS = [
    (1, "u16-basic-mtu23"),
    (2, "u128-queue64-mtu65"),
    (3, "handle-gaps-queue32-mtu23"),
    (4, "descriptors-const-mtu65"),
    (5, "cccd-queue40-mtu23"),
    (6, "cccd-noqueue-mtu247"),
    (7, "free-handlers-queue64-mtu65"),
    (8, "control-points-queue32-mtu23"),
    (9, "control-points-noqueue-mtu65"),
    (10, "secondary-include-queue32-mtu23"),
    (11, "long-values-queue300-mtu247"),
    (12, "mixed-queue23-mtu65"),
    (13, "encryption-queue32-mtu23"),
]

reg("C01",
    level="exploration",
    technique="exhaustive product (no sampling) of prepared connection states x output buffer sizes x a structured ATT PDU "
              "alphabet, every PDU also truncated/padded to every length 1..server MTU, executed on the real "
              "server<>::l2cap_input of 13 hand-written server configurations under ASan with exact-size heap blocks "
              "for input and output; SEGV/ASan reports, out_size and the response framing are the oracles",
    rule="one evaluation = restore the byte image of (server, 2 connections, bound values) of one prepared state, one "
         "l2cap_input call (a successful Prepare Write is followed by Execute Write from the reached state); "
         "outcome class = (request opcode, kind of the addressed attribute, response opcode / error code / none / crash)",
    bound="13 configurations (16/128 bit UUIDs, fixed-handle gaps, descriptors, CCCDs, free/mixin/control-point handlers, "
          "write queue on/off, max_mtu_size 23/65/247, secondary+include, encryption); states: fresh, client MTU "
          "23/24/server max/0xFFFF, CCCDs set, one prepared write, write queue exhausted, queue held by another "
          "connection, CCCDs set + prepared (+ encrypted link for the encryption configuration); output buffers "
          "{negotiated MTU, +7, 512}; natural PDUs: all 14 handled opcodes x handles {0, every handle 0..last+2, 0xFFFF} / "
          "ranges over {0, every attribute handle, gap edges, last+1, 0xFFFF}^2 x offsets {0,1,n-1,n,n+1,MTU-2..MTU,0xFFFF} x "
          "UUIDs {every type in the DB, 0x2800-0x2803, 0x2901, 0x2902, unknown, 128 bit, Bluetooth-base 128 bit forms} x "
          "value lengths, every other opcode 0x00-0xFF at 6 lengths; length sweep: ~120-250 base PDUs x every length "
          "1..server MTU x pads {00, FF, valid handle list}.  quick: sweep with output sizes {MTU, 512} only, for MTU 247 lengths 1..40, every 8th, "
          "MTU-6..MTU and 14 unknown opcodes; thorough: every length and every unknown opcode",
    units=[dict(src="harness/C01_att_input.cpp", asan=True,
                variants=[dict(name=n, defs=["C01_CFG=%d" % i]) for i, n in _C01_CONFIGS])],
    quick_deadline=60, thorough_deadline=600,
    assumptions=[
        "PDU space is a structured alphabet (templates x field alphabets x every length), not all byte strings",
        "configuration quantifier = the 13 listed server declarations (several descriptors per characteristic and the secondary_service<> struct do not compile in bluetoe and are excluded)",
        "input lengths run to the server's maximum MTU in every state (superset of 1..negotiated MTU)",
        "a malformed Handle Value Confirmation (length != 1) may be answered with an Error Response (pinned by tests/att/indication_tests.cpp broken_pdu)",
        "opcodes the server does not implement, including those that only have the command flag set (e.g. 0x65, pinned by tests/att/request_not_supported_tests.cpp) and response opcodes sent by a client, are treated as requests: Error Response naming the opcode, or silence, is accepted",
        "0xD2 (Signed Write Command), 0x1B and 0x1D sent by the client are demanded to stay unanswered (no test pins them)",
        "framing oracle checks the first byte (response opcode) or the 5 byte Error Response naming the request opcode; response bodies belong to C02-C08",
        "user supplied read/write handlers are well behaved (honour read_size/write_size, tolerate a null value pointer with write_size 0)",
        "reads inside the server object / bound values that ASan cannot see as out of bounds are covered only by the write-queue bookkeeping and callback-pointer invariants",
        "mc::Guard is used with a local sigsetjmp(...,0) variant and without the alternate signal stack (saves 2 syscalls per call and ~1 ms per crash); stack overflows would end the unit and be reported by the driver as crash-rc",
    ],
    design_ref="3/C01")
