def _c18_variants(tier):
    v = []
    for lay, d in (("default", []), ("nrf", ["C18_NRF=1"])):
        for size in (12, 16, 24, 31, 61):
            v.append(dict(name="%s%d" % (lay, size), defs=d + ["C18_SIZE=%d" % size]))
    return v


reg("C18",
    level="model_checking",
    technique="explicit-state BFS over the real pdu_ring_buffer<Size, read_buffer, Layout> working on an exact-size heap block under ASan; reference FIFO with byte-exact PDU images and an independent re-implementation of the documented placement policy",
    rule="state = byte image of the ring object + its storage + reference FIFO; transition = one real alloc_front / alloc_front+k*pop_end+fill+push_front / pop_end followed by next_end+more_than_one; classes = (operation, ring shape, outcome) kinds",
    bound="Size in {12,16,24,31,61} x {default_pdu_layout, nrf_details::encrypted_pdu_layout}; block sizes header+{1,2,3,5}, Size/2-1..Size/2+1, Size-3..Size+1; payload whole block / 1 / whole block-1; 0..2 pops between allocation and commit. quick: Size 12,16 to the fixpoint (all reachable states), others to depth 10; thorough: depth 14",
    units=[dict(src="harness/C18_pdu_ring.cpp", asan=True, flags=["-I/verif/harness/C18_stub"], variants=_c18_variants),
           dict(src="harness/C18_rx_stall.cpp", asan=True, flags=["-I/verif/harness/C18_stub"],
                variants=[dict(name="default", defs=[]), dict(name="nrf", defs=["C18_NRF=1"])])],
    quick_deadline=40, thorough_deadline=540,
    assumptions=[
        "PDU payload 1..249 bytes (library's max_buffer_size 251); header length 0 and blocks smaller than header+1 are excluded by the documented preconditions of push_front/alloc_front",
        "pop_end only on a non-empty ring (documented precondition)",
        "a block returned by alloc_front stays usable while older PDUs are popped (ll_data_pdu_buffer hands it to the radio and frees received PDUs meanwhile); at most one block is outstanding",
        "empty ring: any in-range placement is accepted (tests pin 'at the front'); a request of exactly Size bytes may be accepted or refused (tests pin both, depending on the position)",
        "non-empty ring: placement must equal the policy in the comments of alloc_front / ring_buffer_tests.cpp (front if it fits, else start of buffer keeping one byte free; split: gap minus one byte)",
    ],
    design_ref="3/C18")
