def _c18_variants(tier):
    v = []
    for lay, d in (("default", []), ("nrf", ["C18_NRF=1"])):
        for size in (12, 16, 24, 31, 61):
            v.append(dict(name="%s%d" % (lay, size), defs=d + ["C18_SIZE=%d" % size]))
    return v


reg("C18",
    level="model_checking",
    technique="explicit-state BFS over the real pdu_ring_buffer<Size, read_buffer, Layout> working on an exact-size heap block under ASan; reference FIFO with byte-exact PDU images and an independent re-implementation of the documented placement policy, asked for every block size in every state; second unit: the real ll_data_pdu_buffer<61,61> with max_rx_size raised (does the empty-ring refusal reach the ring's user?)",
    rule="state = byte image of the ring object + its storage + reference FIFO; transition = one real call sequence: sweep alloc_front(n) for all n / alloc_front + 0..2 pop_end + fill + push_front / pop_end, each followed by next_end + more_than_one and (scribble passes) by the legal environment action 'allocate the largest block, write 0x00 / 0xff all over it, do not commit' which keeps dead bytes canonical; classes = (operation, ring shape, outcome) kinds",
    bound="Size in {12,16,24,31,61} x {default_pdu_layout, nrf_details::encrypted_pdu_layout}. Size 12,16: all reachable states (fixpoint) with 11 block sizes (header+{1,2,3,5}, Size/2-1..Size/2+1, Size-3..Size+1), payload whole block / 1 / whole block-1, 0..2 pops between allocation and commit, stale bytes 0x00 / 0xff (Size 12 also raw). Size 24,31,61: that alphabet to depth 3 (thorough 5, Size 61: 4) and a reduced alphabet (7 state changing events) to depth 10 (thorough 14; raw stale bytes 8 / 12). rx_stall unit: max_rx_size in {29,30,31,32,40,ReceiveSize-overhead}, payloads {1,5,27,max}, depth 9 (thorough 12)",
    units=[dict(src="harness/C18_pdu_ring.cpp", asan=True, flags=["-I/verif/harness/C18_stub"], variants=_c18_variants),
           dict(src="harness/C18_rx_stall.cpp", asan=True, flags=["-I/verif/harness/C18_stub"],
                variants=[dict(name="default", defs=[]), dict(name="nrf", defs=["C18_NRF=1"])])],
    quick_deadline=40, thorough_deadline=540,
    assumptions=[
        "PDU payload 1..249 bytes (library's max_buffer_size 251); header length 0 and blocks smaller than header+1 are excluded by the documented preconditions of push_front/alloc_front",
        "pop_end only on a non-empty ring (documented precondition)",
        "a block returned by alloc_front stays usable while older PDUs are popped (ll_data_pdu_buffer hands it to the radio and frees received PDUs meanwhile); at most one block is outstanding",
        "empty ring: any in-range placement is accepted (tests pin 'at the front'); a request of exactly Size bytes may be accepted or refused (tests pin both, depending on the position)",
        "non-empty ring: placement must equal the policy in the comments of alloc_front / ring_buffer_tests.cpp (front if it fits, else start of buffer keeping one byte free; split: gap minus one byte)",
    ],
    design_ref="3/C18")
