def _c05_variants(tier):
    # quick: compile without optimisation (the run takes ~1 s, the optimiser ~3x the front end time)
    extra = ["C05_FAST_BUILD=1"] if tier == "quick" else []
    return [dict(name=n, defs=["SRV_OPT=%d" % i] + extra) for i, n in enumerate(["srv_none", "srv_req", "srv_noreq", "srv_may"])]


reg("C05",
    level="model_checking",
    technique="full 4x4x4 product of encryption option placements (4 generated servers x 4 services x 4 characteristics) checked through the real server::l2cap_input/l2cap_output: placement product x 4 link security states (enumeration) plus, per characteristic, an explicit-state BFS over server + connection + bound memory with link-state changes, all read/write request kinds, CCCD accesses and notify/indicate output; reference = inheritance rule of encryption.hpp (nearest requires_encryption / no_encryption_required wins, may_require_encryption transparent)",
    rule="one evaluation = one real l2cap_input / l2cap_output / notify / indicate call on a restored byte image (server object incl. write queue, connection incl. CCCDs + notification queue + link state, all bound values); states de-duplicated on that image; classes = distinct (request kind, link security state, placement class, response class) and (placement class, deciding level, attribute, link, response class)",
    bound="all 64 placements x {unencrypted/no key, unencrypted/unauthenticated key, unencrypted/authenticated key, encrypted} x {value, CCCD}; histories from the encrypted state: quick: depth 6 for the 28 protected placements, depth 5 for the others; thorough: all reachable states (fixpoint) for protected placements, depth 8 for the others; alphabet 40 events per characteristic (4 link states, Read, Read Blob offsets 0/1/4, 5 Read By Type, up to 5 Read Multiple, Write 4/0 bytes, Write Command, Prepare x2, Execute 0/1, CCCD Read/Read Blob/Write 1,2,0/Write Command 3, notify, indicate, l2cap_output, Confirmation)",
    units=[dict(src="harness/C05_encryption.cpp",
                variants=_c05_variants)],
    quick_deadline=60, thorough_deadline=500,
    assumptions=[
        "reference = the library's inheritance semantics as documented for requires_encryption / no_encryption_required ('applies to all containing characteristics, where it can be overridden'): the nearest level (characteristic, service, server) that says requires_encryption or no_encryption_required decides; may_require_encryption is transparent for bound values (it only adds the support code; the @attention note in encryption.hpp is about handlers that decide on their own), so the 7 placements with may_require_encryption below a requiring level are protected and judged like the other 21 (28 protected placements of 64; their violations carry ':through-may')",
        "only the direction stated by the property is demanded (protected and unencrypted => refused, nothing exposed, nothing modified); availability on encrypted links (e.g. Prepare Write always refused for protected values) belongs to C07",
        "error code demanded for single-attribute requests and for the failing attribute of Read Multiple; Read By Type only checked for non-exposure; Execute Write only for 'memory unchanged'; Read Blob offsets <= value length (beyond that Invalid Offset vs. security error is not fixed by the property)",
        "Prepare Write to a CCCD is not sent (null dereference of the client configuration there is C01's finding)",
        "link security is changed through connection.is_encrypted()/pairing_status() as the link layer does; 'encrypted' is modelled with an unauthenticated key",
    ],
    design_ref="3/C05")
