reg("C07",
    level="model_checking",
    technique="explicit-state BFS over the real bluetoe::server<shared_write_queue<S>> with three connection objects (state = byte image of server, connections, "
              "bound values, handler value and reference queue); step oracles against a reference queue, differential acceptance oracle (the same state is asked with a "
              "Write Request, then restored), ownership probes (every connection tries a Prepare Write on every new state, state restored)",
    rule="state = byte image; transition = one ATT request through l2cap_input / one client_disconnected() / one encryption toggle; classes = distinct "
         "(event kind, attribute, offset/length class, link security, queue ownership relation, outcome) combinations observed",
    bound="queue sizes S in {16,64}, 3 connections. full alphabet: 134 events per connection = Prepare(8 attributes: rw, second rw, read-only, requires_encryption, invalid handle, "
          "write-handler value, requires_encryption write-handler value, CCCD of a requires_encryption notifying value x offset {0,1,size,size+1} x length {0,1,max that fits,max+1}), Execute(0|1|2), Write, client_disconnected, toggle encryption - depth bound 5 "
          "(quick) / 7 (thorough), cut by the deadline: the completed depth is reported per unit (measured: S=16 depth 4 quick / 5 thorough, S=64 depth 3 quick / 3 thorough - the thorough runs end at the cap of 7 million states). "
          "reduced alphabet (14 events per connection: 9 prepares covering every attribute kind, Execute 0|1, Write, disconnect, toggle): depth bound 8 quick / 10 thorough (measured: S=16 6 quick / 8 thorough, S=64 5 quick / 7 thorough). "
          "link layer world (real link_layer<server<shared_write_queue<64>>, llw::radio>, events CONNECT_IND by two centrals, 2 prepares, Execute 0|1, LL_TERMINATE_IND, "
          "supervision timeout, empty event, advertising timeout): all sequences of length <= 7 quick / <= 9 thorough, cut by the deadline (measured 7 quick / 9 thorough). "
          "long element world (server<max_mtu_size<512>, shared_write_queue<700>>, 300 octet value, client MTU 512; Prepare with {1,250,251,252,253,255,256,257,300} value "
          "octets at offset {0,44}, Execute 0|1): all sequences of length <= 4 quick / <= 5 thorough",
    units=[dict(src="harness/C07_prepared_writes.cpp",
                variants=[dict(name="q16", defs=["QUEUE=16"]), dict(name="q64", defs=["QUEUE=64"]),
                          dict(name="q16-lite", defs=["QUEUE=16", "LITE=1"]), dict(name="q64-lite", defs=["QUEUE=64", "LITE=1"])]),
           # second world: the real link layer (does a lost connection release the queue?)
           dict(src="harness/C07_ll_disconnect.cpp", link_ll=True),
           # third world: queue elements of 255, 256, 257 ... octets (two octet length field) with an MTU of 512
           dict(src="harness/C07_long_prepare.cpp")],
    quick_deadline=20, thorough_deadline=480,
    assumptions=["'would be permitted': a zero length Write Request to the attribute on the same connection and state is not answered with error 0x01/0x02/0x03/0x05/0x08/0x0c/0x0f",
                 "error code of a refused Prepare Write is not compared with the code of the Write Request (class only); insufficient authentication vs. insufficient encryption is out of scope",
                 "capacity: acceptance is demanded only where write_queue.hpp's documented sizing rule (7 bytes per element + data) guarantees room, refusal only where handle+offset+data "
                 "cannot physically fit; in between the reference follows the implementation",
                 "failing element in Execute Write(1): Error Response with the failing attribute's handle (code 0x07/0x0d as pinned by tests/att/execute_write_tests.cpp), values = result of a "
                 "prefix of the queue not longer than the elements before the failing one (ATT: undefined; tests pin 'all before the failing one')",
                 "Execute Write with flag 2 is rejected and leaves values and queue ownership untouched (tests pin error 0x04)",
                 "client_disconnected() is followed by constructing a fresh connection object at the same address (what a link layer does for the next connection)",
                 "toggle encryption switches between (unencrypted, no key) and (encrypted, unauthenticated key)",
                 "the handler based values (one unprotected, one with requires_encryption) are variable length blobs behind free_write_blob_handler (write sets length = offset + size)",
                 "CCCD reference: only a write at offset 0 changes the two configuration bits; client_disconnected() + fresh connection object clears them",
                 "units C07_prepared_writes-*: server level, the harness calls client_disconnected(); whether bluetoe's link layer does so is decided by unit C07_ll_disconnect",
                 "link layer world: no real time - elapsed time is what the link layer derives from the scheduled intervals; a supervision timeout is 'sim_timeout() until advertising restarts'"],
    design_ref="3/C07")
