reg("C21",
    level="model_checking",
    technique="exhaustive product enumeration on restored snapshots of the real link_layer<> in world LL (POD radio + reference central): "
              "procedure x CONNECT_IND latency x events before x instant offset x traffic while pending x every received/missed pattern, "
              "then a deterministic drain (LL_PING_REQ + received events); step oracle against a reference of the parameters in force",
    rule="one evaluation = one complete case (connection, k events, procedure PDU with instant = counter of the receiving event + delta, "
         "N events each received or missed, drain); one transition = one connection event of the real link layer; "
         "classes = procedure x delta class x traffic x outcome (closed 0x28 / applied at instant / violation)",
    bound="quick: {LL_CONNECTION_UPDATE_IND, LL_CHANNEL_MAP_REQ, LL_PHY_UPDATE_IND after LL_PHY_REQ/RSP} x latency {0,1,3} x k {0,1,5} x "
          "delta {-32768,-3,-2,-1,0,1,2,3,6,7,32767} x traffic {none, LL_PING_REQ, ATT Read Request} x all 2^8 received/missed patterns, plus receive "
          "ring positions 1..24 (LL_PING_REQ exchanges before) x delta {2,3,7} x {3 ATT Write Commands of 27 bytes, ATT Read}; peripheral latency "
          "configurations default and strict; plus LL_CONNECTION_UPDATE_IND to a larger interval (80) with winOffset {old interval + 1, new interval} and to a smaller one (8) with winOffset {0, new interval} x latency {0,1} x delta {2,3,6} x {none, ping} x 2^8 patterns; plus 'connection ends while the procedure is pending': 3 procedures x end {LL_TERMINATE_IND then silence, supervision "
          "timeout by misses: delta {30,33}; local disconnect(): delta {6,7}} -> advertising -> second CONNECT_IND (interval 36, hop 7, channels 0..19) x all 2^7 "
          "patterns of 8 events with the first one received, then received events until the old instant is 3 events behind, LL_PING_REQ.  thorough: latency {0,1,2,3,7} x k {0,1,2,5} x 16 deltas (adds -32767,4,5,9,32766) x 6 traffic kinds "
          "(adds 3 write commands, ping / ATT in the same event as the procedure PDU) x all 2^10 patterns, ring positions 1..64 x all 2^8 patterns, "
          "configurations default, strict, strict_plus; second-connection product with latency {0,1,3} x k {0,1,5} x delta {30,33,40,100,32766} resp. {6,7,9,40}",
    units=[dict(src="harness/C21_instant.cpp", link_ll=True,
                variants=[dict(name="default", defs=["C21_LATCFG=0"]),
                          dict(name="strict", defs=["C21_LATCFG=1"]),
                          dict(name="strict_plus", defs=["C21_LATCFG=2"], thorough_only=True)])],
    quick_deadline=40, thorough_deadline=600,
    assumptions=[
        "instant in the past := (instant - counter of the receiving event) mod 65536 >= 32767 (Core Vol 6 Part B 5.1.1/5.1.2/5.1.10); then the link must "
        "be closed with reason 0x28 in the event that received the PDU",
        "delta >= 2: closing the link is forbidden, the new parameters must be in use for the event whose counter equals the instant "
        "(interval given to schedule_connection_event + connection_changed callback with the carried values / channel of CSA#1 with the new map / "
        "radio_set_phy + ll_phy_updated) and not before",
        "delta in {0,1} (instant not 'past' by the Core rule but closer than a central may choose; tests/link_layer/ll_connection_tests.cpp "
        "connection_update_request_invalid_instance pins 'instant = counter+1 ends the link' for the connection update): both 'closed with 0x28' and "
        "'applied at the next listened event (delta 0) / at the instant (delta 1)' are accepted; only 'accepted but never applied' is flagged",
        "the event of an accepted instant must be listened to (delta >= 1), also under peripheral latency",
        "after the instant every request of the central (LL_PING_REQ, ATT Read, ATT Write Commands) is processed: drain of up to 12 received events; "
        "while the procedure is pending unprocessed data is allowed (statement: 'not longer than until its instant')",
        "an instant beyond the run horizon (delta 32766) only has to keep the link open",
        "LL_PHY_UPDATE_IND carries LE 2M in both directions (the callback's transmit/receive naming is not judged)",
        "the position of the deferred PDU in the receive ring is varied by 3-byte LL_PING_REQ exchanges; the harness reads the private member "
        "defered_ll_control_pdu_ only to name the mechanism of an already failed oracle (signature pending-procedure-overwritten-by-received-data)",
        "second connection (after the first one ended with a procedure still waiting for its instant; a LL_TERMINATE_IND received while a procedure is pending is "
        "not processed before the instant, so the central just goes silent after it): every event uses interval / channel map / hop / PHY of the second CONNECT_IND, "
        "no connection_changed or radio_set_phy happens, a LL_PING_REQ is answered within 6 received events; any failure there is reported as "
        "pending-procedure-survives-connection-end:<procedure>",
        "default buffer_sizes<61,61>, ATT MTU 23; no encryption; central keeps SN/NESN and retransmits what was not acknowledged",
    ],
    design_ref="3/C21")
