reg("C22",
    level="exploration",
    technique="exhaustive product of CONNECT_IND field alphabets on the real link_layer<> in world LL (acceptance against the Core limits), then depth-first "
              "exploration of every received/missed pattern on restored snapshots with a reference clock (anchor + k intervals, minimum window widening, "
              "supervision timeout), drains 'miss until the link is dropped', and the same with a LL_CONNECTION_UPDATE_IND in flight",
    rule="one evaluation = one CONNECT_IND judged, or one complete received/missed pattern (or drain) from an accepted connection; one transition = one "
         "connection event of the real link layer checked against the reference clock; classes = accept/ignore x first violated limit, supervision "
         "outcome per phase (connecting / connected / after update), latency skips, how the instant of the update was reached",
    bound="quick: interval {0,5,6,7,80,3200,3201} x latency {0,1,499,500} x timeout {9,10,72,3200,3201} + boundary of 'timeout > (1+latency)*interval*2' "
          "(t-1,t,t+1) x winSize {0,1,8,9,interval-1,interval} x winOffset {0,1,interval,interval+1} x SCA 0..7 x local sleep clock accuracy {20,500} ppm "
          "(variants); all 2^7 received/missed patterns from every accepted connection; drain to the supervision timeout at every node where it takes "
          "<= 40 events, else at the root, after the first event and after the all-received pattern; update scenarios: base interval {6,80} x latency {0,1} "
          "x SCA {0,7} x new interval {6,80,3200} x new latency {0,1} x instant +{2,3} x winSize {1,min(8,interval-1)} x winOffset {0,1,interval}.  "
          "thorough: 14 intervals x 8 latencies x 10 timeouts x 9 winSizes (incl. 65535 / 255 extremes), all 2^10 patterns, wider update product",
    units=[dict(src="harness/C22_timing.cpp", link_ll=True,
                variants=[dict(name="ppm500", defs=["C22_PPM=500"]),
                          dict(name="ppm20", defs=["C22_PPM=20"])])],
    quick_deadline=40, thorough_deadline=600,
    assumptions=[
        "limits demanded before a connection may be entered (Core Vol 6 Part B 2.3.3.1 / 4.5.2): connInterval in [6,3200] (7.5 ms .. 4 s); connPeripheralLatency "
        "<= 499; connSupervisionTimeout in [10,3200] (100 ms .. 32 s) and timeout*10 ms > (1+latency)*interval*1.25 ms*2 (strictly larger, i.e. timeout*4 > "
        "(1+latency)*interval); transmitWindowSize in [1, min(8, interval-1)] (1.25 ms .. min(10 ms, connInterval-1.25 ms)); transmitWindowOffset <= interval. "
        "tests/link_layer/ll_connecting_tests.cpp pins only: winSize 9 refused, winSize 7 with interval 6 refused, winOffset 11 with interval 10 refused, "
        "timeout 3201 and 9 refused, timeout 350 ms with latency 5 / interval 30 ms refused, latency 500 refused, winOffset == interval accepted - none of the "
        "demanded limits contradicts a test",
        "only 'invalid => not entered' is demanded (statement); valid requests that are ignored are counted as a class, not judged",
        "times given to schedule_connection_event are relative to the last anchor (scheduled_radio.hpp); reference: first event = CONNECT_IND end + 1.25 ms + "
        "winOffset ... + winSize, then + interval per missed event; after a received event k*interval with k = advance of the event counter, 1 <= k <= latency+1 "
        "(which events may be skipped is C23); after an update: old anchor + k*old interval + winOffset ... + winSize at the instant, then + new interval per missed event",
        "window: start <= nominal start - w(start) and end >= nominal end + w(end), w(t) = floor(t * (SCA_central + SCA_local) / 1e6), SCA_central = upper bound of "
        "the class in the CONNECT_IND; 2 us tolerance for rounding; windows wider than necessary are not judged",
        "supervision, connected: dropping the link after a missed event that was t after the last valid packet requires t >= timeout (reason 0x08); keeping it "
        "requires t < timeout (Core 4.5.2: lost when the timer reaches connSupervisionTimeout; with a transmit window of an update in use: t <= timeout + winOffset + winSize, the link layer measures from the old anchor grid)",
        "supervision, connecting: given up not before 6 events were missed and not later than the 7th (Core 4.5.2 '6 x connInterval'; "
        "ll_connecting_tests.cpp pins 6 attempts), reported through ll_connection_attempt_timeout; connSupervisionTimeout does not apply before the first packet",
        "received event = empty PDU from the central with valid CRC; missed event = timeout() (nothing received); CRC errors are not modelled",
        "default peripheral latency configuration; no application traffic",
    ],
    design_ref="3/C22")
