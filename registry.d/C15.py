# generated layout shared by C15 / C16 / C17 (same world, -DORACLE selects whose oracle reports)
import os as _os
_R = _os.environ.get("VERIF_REPO", "/repo")
_V = _os.environ.get("VERIF_HOME", "/verif")
# host build of the nrf52 binding's header: stub <nrf.h>, include paths of the binding
_NRF_FLAGS = ["-fpermissive", "-I" + _V + "/stubs", "-I" + _R + "/bluetoe/bindings/nordic/include",
              "-I" + _R + "/bluetoe/bindings/nordic/nrf52/include", "-I" + _R + "/bluetoe/bindings/nordic/uECC"]

def _v(name, buf, mode, forced, dq, dt, thorough_only=False, extra=()):
    d = dict(name=name, defs=["BUF=%d" % buf, "MODE=%d" % mode, "FORCED=%d" % forced, "DEPTH_Q=%d" % dq, "DEPTH_T=%d" % dt] + list(extra))
    if thorough_only:
        d["thorough_only"] = True
    return d

reg("C15",
    level="model_checking",
    technique="explicit-state BFS (state de-duplication on the byte image) over the real ll_data_pdu_buffer<TX,RX,Radio>, driven like the nrf52 radio interrupt handler drives it, against an independent central (SN/NESN protocol, numbered payloads) and an upper-layer log; step oracles on every transition plus a fault-free drain run (bounded liveness) from every reachable state",
    rule="state = byte image of the real buffer object (rings, SN/NESN bits, counters) + fallback receive buffer + reference model; one transition = one connection event = upper-layer action {none, commit 1 byte, commit 27 bytes, consume, consume after the receive buffer was allocated, new connection = buffer memory reused for advertising + reset_pdu_buffer(), commit 1 byte / consume with the radio interrupt of this event arriving when the call takes its lock_guard} x central {new data, new empty, repeat last PDU, new non-empty PDU with LLID 0} x fault c->p {ok, lost, CRC error, MIC error} x fault p->c {ok, lost}; classes = (ISR path, new/resent data/empty, ack/nak, transmit ring released, kind of answer, central acknowledged). oracle C15: NESN only changes for a new PDU handed to received() (never on CRC error / full receive buffer / resent PDU); receive ring == acknowledged-and-not-consumed PDUs after every event (nothing lost, duplicated, reordered, corrupt); next_received() hands up exactly that sequence; a PDU leaves the transmit ring only in an event with a valid header and only after the central accepted it; the central accepts committed PDUs exactly once, in order, intact; drain: fault free continuation delivers everything",
    bound="every sequence may contain one new connection (reset_pdu_buffer() on the same object, central restarts with SN=NESN=0) and one non-empty PDU with the reserved LLID 0 (quick units mix58 / mix87: new connection only). units rx87d / mix58_87d: max_rx_size( 70 ) and central payloads of 31, 32, 33, 64 octets (lengths whose low 5 bits are 0), receive direction alone 10 events (thorough: fixpoint or 60) / both directions 5 (6). units mix58_87 / mix87_58: TransmitSize != ReceiveSize, both directions, 5 events (thorough 6). quick: TX=RX=29 all reachable states (fixpoint, incl. a central repeating acknowledged PDUs); TX=RX=58 both directions 6 connection events, 87 both directions 5, 58 with a central that also repeats acknowledged PDUs 4; receive direction alone (nothing committed): 58 12 events, 87 8 events; transmit direction alone (central sends empty PDUs): 58 7 events, 87 8 events; real nrf52 ISR as device under test: 58 both directions 4 events. thorough: 58 both directions 9 events (alphabet without new connection / LLID 0) and 7 events (with them), 61 (library default) 6, 87 6, repeated-acknowledged variant 6; receive direction alone: fixpoint = all reachable states for 58 (also with repeated acknowledged PDUs) and 87, 87 with repeated acknowledged PDUs 12 events; transmit direction alone 9 (58) / 12 (87) events; real ISR: 58 7 events, 87 6, receive direction fixpoint, transmit direction 9. Payload ids and packet counters modulo 4.",
    units=[dict(src="harness/C15_ll_buffer.cpp", defs=["ORACLE=15"],
                variants=[_v("mix29", 29, 0, 1, 40, 40),
                          _v("mix58", 58, 0, 0, 6, 9, extra=["LLID0_Q=0", "RESETS_T=0", "LLID0_T=0", "IRQ_T=0"]),   # quick: with new connection; thorough: the plain alphabet to 9 events
                          _v("mix58x", 58, 0, 0, 6, 7, thorough_only=True),                # thorough: with new connection / LLID 0
                          _v("mix87", 87, 0, 0, 5, 6, extra=["LLID0_Q=0"]),
                          _v("mix58f", 58, 0, 1, 4, 6),
                          # transmit and receive memory of different size ( the two rings share one array )
                          _v("mix58_87", 58, 0, 0, 5, 6, extra=["TXBUF=58", "RXBUF=87", "LLID0_Q=0", "RESETS_Q=0"]),
                          _v("mix87_58", 58, 0, 0, 5, 6, extra=["TXBUF=87", "RXBUF=58", "LLID0_Q=0", "RESETS_Q=0"]),
                          # data length extension in the receive direction: max_rx_size( 70 ), central payloads 31 / 32 / 33 / 64 octets
                          _v("rx87d", 87, 1, 0, 10, 60, extra=["DLE=1"]),
                          _v("mix58_87d", 58, 0, 0, 5, 6, extra=["TXBUF=58", "RXBUF=87", "DLE=1"]),
                          _v("mix61", 61, 0, 0, 6, 6, thorough_only=True),
                          _v("rx58", 58, 1, 0, 12, 60),
                          _v("rx58f", 58, 1, 1, 60, 60, thorough_only=True),
                          _v("rx87", 87, 1, 0, 8, 60),
                          _v("rx87f", 87, 1, 1, 9, 12, thorough_only=True),
                          _v("tx58f", 58, 2, 1, 7, 9),
                          _v("tx87", 87, 2, 0, 8, 12)]),
           # the real nrf52_radio_base (schedule_connection_event / radio_interrupt_handler / run) with a scripted fake Hardware
           dict(src="harness/C15_ll_buffer.cpp", defs=["ORACLE=15", "ISR=1"], flags=_NRF_FLAGS, link_ll=True,
                variants=[_v("isr58", 58, 0, 0, 4, 7),
                          _v("isr87", 87, 0, 0, 4, 6, thorough_only=True),
                          _v("isr58rxf", 58, 1, 1, 60, 60, thorough_only=True),
                          _v("isr58txf", 58, 2, 1, 7, 9, thorough_only=True)])],
    quick_deadline=40, thorough_deadline=560,
    assumptions=[
        "interrupted calls: the harness owns Radio::lock_guard; when armed, the constructor of the guard first runs the radio's part of the connection event (interrupt arrives while the main context is about to take the lock); on correct code this equals 'interrupt, then call'",
        "placement: allocate_transmit_buffer() has to return memory inside the first TransmitSize bytes of raw_pdu_buffer(), allocate_receive_buffer() inside the ReceiveSize bytes behind them",
        "units isr*: nrf52_radio_base is instantiated on the host with a fake Hardware (scripted received_pdu(), recorded configure_receive_train / configure_final_transmit) and zero initialised storage (radio objects are static on the target); the real ISR stays silent on a CRC error (treated like a lost PDU), the transcribed table of the other units answers with next_transmit() - both are explored",
        "driver = decision table of nrf52_radio_base::radio_interrupt_handler (state evt_wait_connect): no anchor -> nothing called; fallback receive buffer or CRC error -> next_transmit(); valid PDU -> received(); CRC ok + MIC bad -> acknowledge(); one PDU pair per connection event; receive buffer allocated when the event is scheduled",
        "the central obeys the SN/NESN rules (new PDU only after the acknowledge); variants *f add a central that repeats an already acknowledged PDU",
        "MIC errors only on non-empty PDUs (hardware evaluates no MIC for empty ones); C15/C16 explore MIC failures only on resent, already delivered PDUs (the case an encrypted link produces) - a MIC failure on a new PDU is quantified by C17 only",
        "a valid new PDU may be NAKed (flow control); what is demanded is that NESN never advances without the PDU being stored and that the transmit ring is only released by a valid header",
        "liveness (drain) is not judged when the *empty* receive ring cannot provide a buffer - that is the ring buffer's allocation policy (C18), it shows with TX=RX=29",
        "default max_rx_size / max_tx_size (29) and PDU sizes 1 and 27 bytes, except units *d: max_rx_size 70 with payloads 31 / 32 / 33 / 64; stop mode and the more-data bit are out of scope",
        "a non-empty PDU with the reserved LLID 0 may be acknowledged (pinned by LL_CON_PER_BI_17_C_*), must never be handed up (C15) and, once acknowledged, counts for the receive packet counter like any non-empty PDU (C16: the central's CCM counted it)",
        "new connection: between two connections the link layer may use raw_pdu_buffer() (advertising), so the harness overwrites the buffer memory with a constant before reset_pdu_buffer(); packet counters, payload numbering and the central restart, bit 3 of the payload tag tells the two connections apart; after the reset both rings have to be empty and the first committed PDU has to reach the new central",
        "ids and counters are kept modulo 4: a displacement by a multiple of 4 PDUs would alias (ring occupancy counts are checked independently)"],
    design_ref="3/C15-C17")
