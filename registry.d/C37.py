import os as _os
_R = _os.environ.get("VERIF_REPO", "/repo")
_V = _os.environ.get("VERIF_HOME", "/verif")
# host build of the nRF52 binding: <nrf.h> comes from /verif/stubs, ECBDATAPTR is a 32 bit register -> -fpermissive -no-pie
_NRF_FLAGS = ["-fpermissive", "-no-pie", "-I" + _V + "/stubs",
              "-I" + _R + "/bluetoe/bindings/nordic/include", "-I" + _R + "/bluetoe/bindings/nordic/nrf52/include",
              "-I" + _R + "/bluetoe/bindings/nordic/uECC"]
# uECC.c is C ("public"/"private" are identifiers): switch the language for that one file inside the g++ command
_NRF_SRC = ["@REPO@/bluetoe/bindings/nordic/nrf52/security_tool_box.cpp", "@VERIF@/stubs/nrf_emul.cpp", "@REPO@/bluetoe/utility/address.cpp",
            "-x", "c", "@REPO@/bluetoe/bindings/nordic/uECC/uECC.c", "-x", "none"]

reg("C37",
    level="exploration",
    technique="exhaustive product enumeration over a structured value alphabet on the real nRF52 security_tool_box.cpp, built on the host against an emulated ECB/RNG register block (stubs/nrf.h); every output compared octet by octet with an independent reference (own AES-128 / AES-CMAC / c1 s1 f4 f5 f6 g2 / session key written from FIPS-197, RFC 4493 and the Core spec, self-checked against the published vectors at every start); is_valid_public_key compared with the curve equation decided twice (Python integers, naive C++ arithmetic)",
    rule="one evaluation = one call of the real toolbox function with one input vector (or one 64 octet public key); classes = function x input class (base vector, varied parameter) x visibility of the variation in the output x CMAC sub-key branch taken; public keys: input class x valid/invalid x accepted/rejected",
    bound="quick: per function the Core sample vector, all-zero, all-ones, counting pattern, 4 keys driving every (MSB(L), MSB(K1)) CMAC sub-key branch, all address type combinations, all 256 z of f4, and every single-bit flip of every input bit around each of these bases; public keys: 160 table points (k*G k<=64, large multiples, Core sample keys, tiny/huge coordinates, negated, swapped, off by one, zero, x+p, y+p, p, 2^256-1) and all 512 single-bit flips of 79 valid points, for uECC word sizes 4 and 8; thorough: + every value of every input octet and every pair of bit flips around the sample vectors (functions) and around G and sample key A (public keys)",
    units=[dict(src="harness/C37_toolbox.cpp", flags=_NRF_FLAGS, defs=["uECC_CURVE=uECC_secp256r1"], extra_src=_NRF_SRC),
           dict(src="harness/C37_pubkey.cpp", flags=_NRF_FLAGS, defs=["uECC_CURVE=uECC_secp256r1"], extra_src=_NRF_SRC,
                variants=[dict(name="w4", defs=["uECC_WORD_SIZE=4"]), dict(name="w8", defs=["uECC_WORD_SIZE=8"])])],
    quick_deadline=40, thorough_deadline=500,
    assumptions=[
        "exploration, not proof: the functions are straight-line compositions of AES with fixed octet layouts, so layout / sub-key / byte-order errors show on the alphabet; a deviation that depends on specific values outside the alphabet (2^128 input domains) is not decided",
        "the AES block itself is the nRF ECB peripheral (hardware); it is emulated by stubs/nrf_emul.cpp and is not under test",
        "c1 is checked as the toolbox defines it, on given p1/p2; building p1/p2 from the PDUs and addresses is security_manager.hpp (not this property)",
        "LL session key: nrf52_details::aes_le(LTK, SKDm||SKDs little endian) is checked against the Core Vol 6 Part C sample; the three lines of radio_hardware_with_crypto_support::setup_encryption() in nrf52.cpp that build SKD need the whole radio and are not compiled",
        "uECC is compiled from C for word sizes 4 and 8; the Cortex-M inline assembly (asm_arm.inc, uECC_ASM=1 on the target) cannot run on the host",
        "validity of a public key = both coordinates < p and on the curve (P-256 has cofactor 1); p256(), generate_keys() are not part of the statement",
    ],
    design_ref="3/C37")
