def _c14_variants(tier):
    v = [dict(name="q%d" % i, defs=['C14_HDR="C14_gen_q%d.hpp"' % i]) for i in range(4)]
    if tier != "quick":
        v += [dict(name="t%d" % i, defs=['C14_HDR="C14_gen_t%d.hpp"' % i]) for i in range(12)]
    return v


reg("C14",
    level="exploration",
    technique="exhaustive product enumeration on the real server<>: every generated server declaration x {advertising_data, scan_response_data} x every buffer size 0..31, each call made into canary-framed blocks (two patterns) and an exact-size heap block under ASan; results parsed by an independent AD-structure parser against a reference record computed by the generator",
    rule="one evaluation = one (configuration, function, buffer size) triple = 3 real calls; classes = distinct sequences of AD structure kinds (flags / appearance / name / shortened name / complete or incomplete UUID lists / range / zero padding) per data source, plus one class per violation signature",
    bound="quick: 292 configurations (name 0..31 x appearance x range; 0..15 16-bit UUIDs automatic and explicit; 0..2 128-bit UUIDs; names that make the payload end at 28..32 octets; custom/runtime custom data of 0..40 octets) x 2 functions x sizes 0..31; thorough: + 3477 configurations (name 0..33,40 x 3 appearance x 3 range; product name{9} x appearance x 16-bit list{8} x 128-bit list{5} x range x GAP service on/off; all exact-fit names for 0..15 UUIDs; 11x4 custom data sizes in 4 combinations)",
    units=[dict(src="harness/C14_adv_data.cpp", asan=True, pre=["python3", "gen/C14_servers.py"], variants=_c14_variants)],
    quick_deadline=30, thorough_deadline=300,
    assumptions=[
        "configurations are the grammar of gen/C14_servers.py (primary services without characteristics, distinct UUIDs, one name alphabet), not all C++ programs",
        "a zero length octet ends the significant part and must be followed by zero octets only (Core Vol 3 Part C 11); the trailing 00 00 that bluetoe appends for sniffers is accepted as such padding",
        "automatic 16-bit list: the GAP service UUID 0x1800 that the library appends (pinned by tests/advertising_tests.cpp implicit_service_list) is accepted but not demanded; 'complete' is demanded to contain all user declared UUIDs, 'incomplete' must miss at least one expected UUID",
        "order of UUIDs inside a list is not checked (subset, each once)",
        "presence of name / lists / appearance / range is demanded only when the unused tail of the buffer could hold the smallest form of the item; a shortened name / incomplete list is an error only if the unused tail could hold one more octet / UUID",
        "custom_* / runtime_custom_* data: only 'fits the buffer', 'is a prefix of the supplied octets' and 'is complete when it fits' are checked; set_runtime_custom_*() keeping at most 31 octets is accepted",
        "value of the flags octet is not checked (length only); scan response: tiling and content rules only, no item is demanded",
    ],
    design_ref="3/C14")
