def _c06_variants(tier):
    groups = [("g0_uint8", 0), ("g1_uint32", 1), ("g2_array20", 2), ("g3_array20_wwr", 3), ("g4_array30", 4), ("g5_array30_wwr", 5),
              ("g6_const_fixed", 6), ("g7_fixed_cstring_blob", 7), ("g8_handler", 8), ("g9_blob_handler", 9), ("g10_ro_wo_typed_handler", 10), ("g11_array300", 11)]
    out = []
    for name, g in groups:
        if tier == "quick":
            if g in (3, 5):
                continue
            out.append(dict(name=name, defs=["C06_GROUP=%d" % g, "C06_QUICK=1"]))
        else:
            out.append(dict(name=name, defs=["C06_GROUP=%d" % g]))
    return out


reg("C06",
    level="model_checking",
    technique="explicit-state BFS over the real server<> + connection + every bound variable (one guarded arena = one linker section, exact-size heap blocks for PDUs, ASan) per value kind x permission option x MTU {23,65}, against a reference byte-array model of the attribute value and of the prepare queue; declared properties and permission options cross-checked against observed behaviour",
    rule="one transition = one l2cap_input call (Write / Write Command / Prepare / Execute / Read / Read Blob / Read Multiple / Read By Type / Read of the declaration / writes to a neighbour) on a restored byte image; states de-duplicated on server + connection + arena + reference queue; after every step the response must equal the reference response and the whole arena the reference arena; classes = distinct (value implementation class, request kind, expected outcome, response class) and (implementation class, option, property byte, read/write observed)",
    bound="value kinds: bound uint8, uint32, uint8[20], uint8[30], uint8[300] (offsets >= 256 valid), const uint32, fixed_uint8/16/32_value, cstring_value (28), fixed_blob_value (25), free_read+free_raw_write handler (8), free_read_blob+free_write_blob handler (30), read-only, write-only and typed (uint16) write handler; options: plain, no_read_access, no_write_access, write_without_response, only_write_without_response, no_read+no_write (52 configurations thorough, 30 quick) x MTU 23 and 65.  Alphabet: Write and Write Command len 0..n+1 x 2 fill patterns, Prepare offset 0..n+1, {255,256,257,256+n-1,512,0x0201,0xFF00} (quick: {256,256+n-1,0xFF00}) and 0xFFFF x len {0,1,fit,fit+1}, Execute 0/1, Read, Read Blob offset 0..n+1, {255,256,257,256+n-1,512,0x0201,0xFF00} and 0xFFFF, 3 Read Multiple, Read By Type, Read declaration, Write/Prepare to the neighbour.  quick: depth 3 for both MTUs (n<=4: full alphabet; larger: lengths/offsets {0,1,2,n-1,n,n+1}); thorough: depth 4 at MTU 23 for plain/no_read_access (same alphabet split), depth 3 for write_without_response/only_write_without_response (only the property byte differs) and at MTU 65, plus for n>4 the full alphabet to depth 3 at MTU 65 (depth 2 if it has more than 220 events or at MTU 23); every pass with its alphabet size and depth is listed in the evidence counters",
    units=[dict(src="harness/C06_values.cpp", asan=True, variants=_c06_variants)],
    quick_deadline=60, thorough_deadline=540,
    assumptions=[
        "PDUs respect the negotiated MTU (the link layer never delivers longer ones); handles and opcodes are well formed (malformed PDUs are C01)",
        "where several refusal reasons apply at once (e.g. not writable and too long) any of the applicable codes is accepted; a short Write Request is a partial write of the first octets (pinned by write_tests write_full_data_part); offset == length reads an empty value, offset > length is Invalid Offset",
        "Execute Write: which element fails and that elements before it are applied is checked (pinned by execute_write_tests); the error code only for membership in {applicable codes, Invalid Offset} because the server maps everything but Invalid Attribute Value Length to Invalid Offset",
        "Prepare Write on a writable value: accepted or Prepare Queue Full; for handler backed values any refusal is accepted because the server probes the write handler with an empty value (deferred-write semantics are C07); non-blob handlers answer offset != 0 with Attribute Not Long (documented, pinned by read_write_handler_tests)",
        "Read By Type on a non readable value: only 'no value returned' is demanded, not the error code",
        "handler semantics are defined by the harness (fixed size buffer, a write stores exactly the written octets); contradictory declarations (no_write_access together with write_without_response, write_without_response on a read-only value) are not generated; notifications/indications of values are C08-C11",
        "(Write|WriteWithoutResponse) bits are compared with 'a Write Request is accepted'; only_write_without_response does not forbid Write Requests (the option only describes the property bits)",
    ],
    design_ref="3/C06")
