_c10_bare = lambda name, cfg, dq, dt, nconn=1, t=False: dict(name=name, thorough_only=t, defs=["CFG=" + cfg, "NCONN=%d" % nconn, "WORLD_LL=0", "DEPTH_Q=%d" % dq, "DEPTH_T=%d" % dt])
_c10_ll   = lambda name, cfg, dq, dt, t=False: dict(name=name, thorough_only=t, defs=["CFG=" + cfg, "NCONN=1", "WORLD_LL=1", "DEPTH_Q=%d" % dq, "DEPTH_T=%d" % dt, "LLW_MAX_PDU=24", "LLW_MAX_TX_LOG=6"])
reg("C10",
    level="model_checking",
    technique="explicit-state BFS over the real server<> + channel_data_t connection(s) with a notification callback that is a literal copy of link_layer::queue_lcap_notification (world 'bare'), and over the real link_layer<server, llw::radio> with a reference central (world 'll'); a reference model that knows nothing about queue indices or priorities (pending request set per connection, CCCD bits, current values, reference value handles from the GATT layout) judges every emitted PDU; from every reachable state of the bare world a drain with a generously confirming client checks that every pending, subscribed request is delivered exactly once",
    rule="state = byte image of server/link layer + connection(s) + bound values + reference model; transition = one of: CCCD write (00/01/02/03), notify(value_k), notify<uuid_k>(), indicate(value_k), indicate<uuid_k>(), transmit opportunity (l2cap_output / 2N+2 connection events), Handle Value Confirmation, value change; classes = (PDU kind, request path, single/coalesced request, CCCD value, value changed) and request/empty-output kinds",
    bound="(quick runs 9 of the 18 configurations: N=3 without/with service level priorities, N=4 / N=5 / 2-connection N=3 with priorities, N=3 with one and with two include declarations per service, N=3 with a duplicated UUID, link layer world with priorities; thorough runs all) servers with 3/4/5 notify|indicate|both characteristics x {no priorities, service level, server+service level higher_outgoing_priority}; additionally N=3/4 servers whose services carry one or two include_service<> declarations (reference handles = service declaration + one attribute per include, then 3 per characteristic; depth 5/7) and an N=3 server where characteristic 2 (later service, raised priority) repeats the UUID of characteristic 0 (depth 5/7); bare world, 1 connection: all event sequences up to depth 6 (N=3), 5 (N=4), 5 (N=5) quick and 8/7/6 thorough, drain from every reachable state; 2 connections (N=3, priorities): depth 5/6; link layer world (N=3, without and with priorities): depth 4/5 where every step that involves the radio is followed by 2N+2 connection events",
    units=[dict(src="harness/C10_notify_routing.cpp",
                variants=[_c10_bare("b-n3_p0", "n3_p0", 6, 8), _c10_bare("b-n3_p1", "n3_p1", 6, 8), _c10_bare("b-n3_p2", "n3_p2", 6, 8, t=True),
                          _c10_bare("b-n4_p0", "n4_p0", 5, 7, t=True), _c10_bare("b-n4_p1", "n4_p1", 5, 7, t=True), _c10_bare("b-n4_p2", "n4_p2", 5, 7),
                          _c10_bare("b-n5_p0", "n5_p0", 5, 6, t=True), _c10_bare("b-n5_p1", "n5_p1", 5, 6), _c10_bare("b-n5_p2", "n5_p2", 5, 6, t=True),
                          _c10_bare("b2-n3_p0", "n3_p0", 5, 6, 2, t=True), _c10_bare("b2-n3_p1", "n3_p1", 5, 6, 2),
                          # services with include declarations in front of / inside the notifying service; a duplicated characteristic UUID
                          _c10_bare("b-n3_i1", "n3_i1", 5, 7), _c10_bare("b-n3_i2p", "n3_i2p", 5, 7), _c10_bare("b-n4_i12", "n4_i12", 5, 6, t=True),
                          _c10_bare("b-n3_dup", "n3_dup", 5, 7)]),
           dict(src="harness/C10_notify_routing.cpp", link_ll=True,
                variants=[_c10_ll("ll-n3_p0", "n3_p0", 4, 5, t=True), _c10_ll("ll-n3_p1", "n3_p1", 4, 5), _c10_ll("ll-n3_i1", "n3_i1", 4, 5, t=True)])],
    quick_deadline=120, thorough_deadline=900,
    assumptions=[
        "'current value' = value at the moment the PDU is built (l2cap_output / end of the connection event), one octet values",
        "a request made while (or followed by a transmit opportunity while) the connection is not subscribed for that kind may be dropped silently - which pending request a fruitless transmit opportunity consumed is the queue's business (C12), so all unsubscribed pending requests become 'maybe pending'",
        "return values of notify()/indicate() are recorded, not judged (the statement only speaks about PDUs)",
        "one-at-a-time indications and starvation behind an unconfirmed indication are C11: the drain confirms after every transmit opportunity",
        "duplicated characteristic UUID: notify<UUID>()/indicate<UUID>() address the first declared characteristic with that UUID (documented at server::notify<UUID>()); the API offers no way to name a later one, so later duplicates are requested by value only",
        "notify(value)/indicate(value) are only called for characteristics that offer that kind (documented precondition)",
        "all symptoms in a history that contains a request filed under the queue index of another characteristic are reported under one signature (wrong-characteristic-notified:...); after such a failure the branch is not explored further",
        "link layer world: steps are atomic w.r.t. the radio (request API calls happen between connection events, never inside one)"],
    design_ref="3/C10")
