reg("C24",
    level="model_checking",
    technique="explicit-state BFS to fixpoint over the real link_layer<> (advertiser, channel map, interval and start/stop options) on the shared POD radio; "
              "every call of schedule_advertisment is compared with a reference model of the channel map, the position inside the advertising event, "
              "the interval in force and the start/stop/count requests",
    rule="state = byte image of the link layer object (incl. channel cursor, 0..10 ms perturbation generator, start/stop/count flags) + reference model; "
         "transition = one real call (run, adv_timeout, start_advertising(), start_advertising(1|2), stop_advertising, add/remove channel 37|38|39, "
         "advertising_interval_ms(20|21|33|100|1001|10240|19|10241), advertising_interval(delta_time(33333us))), redundant adds/removes included; classes = (map, channel, position in event), every observed delay value, stop/count outcomes",
    bound="both tiers: all reachable states (fixpoint, depth ~25) per configuration; quick: 5 configurations (variable map x {advertising_interval<21>, variable interval incl. 20/21/33/100/1001/10240 ms and 33.333 ms}, "
          "fixed all-channel map, auto start x variable map, multi-type advertiser); thorough: + advertising_interval<20>, <100> (default), <10240>, all defaults; states behind a failed oracle are not expanded",
    units=[dict(src="harness/C24_adv_channels.cpp", link_ll=True,
                variants=[dict(name="vmap_i21", defs=["C24_CFG=9"]),
                          dict(name="vmap_i20", defs=["C24_CFG=1"], thorough_only=True),
                          dict(name="vmap_i100", defs=["C24_CFG=2"], thorough_only=True),
                          dict(name="vmap_i10240", defs=["C24_CFG=3"], thorough_only=True),
                          dict(name="vmap_ivar", defs=["C24_CFG=4"]),
                          dict(name="allmap_ivar", defs=["C24_CFG=5"]),
                          dict(name="vmap_autostart", defs=["C24_CFG=6"]),
                          dict(name="vmap_multitype", defs=["C24_CFG=7"]),
                          dict(name="defaults", defs=["C24_CFG=8"], thorough_only=True)])],
    quick_deadline=30, thorough_deadline=120,
    assumptions=[
        "channel map changes are made only while not advertising (before run() / after stop and the last adv_timeout): variable_advertising_channel_map documents "
        "'It is not supported to change the channel map during advertising'; an empty map is allowed transiently but never while starting (documented)",
        "start_advertising(n): public doc says n advertising events, implementation comment and tests (start_advertising(42) => 42 PDUs) say n PDUs; "
        "demanded is only what both readings share: not stopped before n PDUs, never more than n advertising events (with a one-channel map both coincide)",
        "the reference channel map is an independent set (remove = set difference, add = union, both idempotent); the configured interval is taken exactly "
        "(the unchanged code stores it in microseconds without rounding), so spacing below the configured value is a violation also for values that are no multiple of 0.625 ms",
        "when == 0 (delta_time::now()) is read as 'immediately'; the interval + [0,10] ms is measured from the last PDU of the previous event as the "
        "scheduled_radio T0 rule defines it; the pseudo-random delay is only checked to lie in [0,10] ms (all 11 values are observed)",
        "a start from idle must begin an advertising event on the lowest enabled channel; scheduling a second advertisement while the radio still holds one "
        "(stop/count-down followed by start before adv_timeout) is a violation of the one-slot scheduled_radio contract",
        "no connections (connect/disconnect restart of advertising is covered by C25/C22 worlds); no real time"],
    design_ref="3/C24")
