import os, importlib.util

_V = os.path.dirname(os.path.abspath(reg.__code__.co_filename))
_spec = importlib.util.spec_from_file_location("verif_gen_servers", os.path.join(_V, "gen", "servers.py"))
_servers = importlib.util.module_from_spec(_spec)
_spec.loader.exec_module(_servers)


def _variants(tier):
    return [dict(name=n, defs=['CFG_HEADER="C04_handles-%s.gen.hpp"' % n]) for n in _servers.family("C04", tier)]


reg("C04",
    level="exploration",
    technique="exhaustive enumeration per generated server declaration (gen/servers.py: atoms alone, hand written combinations and a pair-wise covering "
              "family over characteristic options; reference attribute table computed independently from the documented handle rules and the Core "
              "spec attribute layout): every attribute index and every handle 0..last+2, 0xFFFF is evaluated on the real handle_index_mapping<> and "
              "through ATT (Find Information, Read, Read Blob at offset 0 and inside the value, Read Multiple, Read By Type) on the real server",
    rule="one evaluation = one index or handle checked against handle_by_index / index_by_handle / first_index_by_handle / attribute_at, or one ATT "
         "request whose response is compared with the reference type / value; a class = section x attribute kind (or position of the handle: "
         "on attribute, in gap, before first, beyond last) x outcome",
    bound="quick: %d server declarations; thorough: %d (all attributes and all handles 0..last+2, 0xFFFF of each)" % (
        len(_servers.family("C04", "quick")), len(_servers.family("C04", "thorough"))),
    units=[dict(src="harness/C04_handles.cpp", pre=["python3", "gen/servers.py", "emit"], variants=_variants)],
    quick_deadline=40, thorough_deadline=300,
    assumptions=[
        "configuration quantifier = the grammar of gen/servers.py: services (primary / is_secondary_service, 16/128 bit UUID, attribute_handle<> gap), "
        "characteristics (16/128/derived UUID; bound 1/4/20 byte and fixed values; notify/indicate/both; name; descriptor; attribute_handle<>, "
        "attribute_handles<D,V>, attribute_handles<D,V,C>), include_service (16/128 bit, backward, forward, into a fixed-handle service), GAP service",
        "declarations that do not compile are excluded: " + "; ".join("%s (%s)" % e for e in _servers.EXCLUDED),
        "reference handles: count up from 1 in declaration order, service declaration, include declarations, then per characteristic declaration, "
        "value, CCCD, user description, descriptors; pinned handles as documented for attribute_handle<> / attribute_handles<>",
        "after the index->handle table of a configuration failed, only the include declarations are still evaluated (reference and implementation are out of step)",
        "handles reported in notifications/indications are not evaluated here (C10)",
        "Find Information is asked per single handle, so that the range defects of C02 do not show up here"],
    design_ref="3/C04")
