import os as _os
_R = _os.environ.get("VERIF_REPO", "/repo")
_V = _os.environ.get("VERIF_HOME", "/verif")
_NRF_FLAGS = ["-fpermissive", "-no-pie", "-I" + _V + "/stubs",
              "-I" + _R + "/bluetoe/bindings/nordic/include", "-I" + _R + "/bluetoe/bindings/nordic/nrf52/include",
              "-I" + _R + "/bluetoe/bindings/nordic/uECC"]
_NRF_SRC = ["@REPO@/bluetoe/bindings/nordic/nrf52/security_tool_box.cpp", "@VERIF@/stubs/nrf_emul.cpp", "@REPO@/bluetoe/utility/address.cpp",
            "-x", "c", "@REPO@/bluetoe/bindings/nordic/uECC/uECC.c", "-x", "none"]

reg("C38",
    level="model_checking",
    technique="the RNG peripheral is the environment: every random octet stream the real security_tool_box::create_passkey() can consume is enumerated (host build against the emulated RNG register block of stubs/nrf.h); range of every returned value and equal number of accepted streams per value are checked",
    rule="one evaluation = one call of the real create_passkey() on one random octet stream; classes = draw round x accepted/redraw x value in/out of range x octets read",
    bound="all 2^(8D) streams of the first draw (D = octets read per draw, 3 today = 16 777 216 streams); if the generator redraws: additionally all streams of the second draw after the first and after the last rejected prefix, every other rejected prefix is continued with zeros and has to end within 64 octets; both tiers identical",
    units=[dict(src="harness/C38_passkey.cpp", flags=_NRF_FLAGS, defs=["uECC_CURVE=uECC_secp256r1"], extra_src=_NRF_SRC)],
    quick_deadline=40, thorough_deadline=300,
    assumptions=[
        "the passkey is the number the IO capability layer displays: read_32bit of octets 0..3 of the returned array (io_capabilities.hpp), and octets 4..15 have to be zero because the whole array is the TK",
        "the RNG delivers independent uniformly distributed octets (bias correction of the peripheral is configuration, not this property); uniform = every value 000000..999999 is produced by the same number of equally likely streams per draw",
        "uniformity is only judged when no value above 999999 is produced (one defect, one signature)",
        "a generator that needs more than 4 octets per draw (> 2^32 streams) is not enumerated; reported as not exhaustive",
    ],
    design_ref="3/C38")
