reg("C12",
    level="model_checking",
    technique="explicit-state BFS to fixpoint over the real notification_queue<> for every priority partition of n<=5, reference set model, drain+fairness run from every reachable state",
    rule="states = byte image of the real queue object + reference set; transitions = one real call each (queue_notification/queue_indication/dequeue/confirm/clear); classes = distinct (operation, outcome) kinds observed",
    bound="all reachable states (fixpoint) for all 31 compositions of n<=5 into priority levels (thorough: + sizes 6,7,(1,5),(5,1),(2,4),(3,3),(2,2,2))",
    units=[dict(src="harness/C12_notification_queue.cpp")],
    quick_deadline=60, thorough_deadline=600,
    assumptions=["single context (interleavings are C13)", "'within one round' read as: at most 2*levelsize+1 dequeues of that level while every other characteristic of the level is re-queued immediately"],
    design_ref="3/C12")
