import os, importlib.util

_V = os.path.dirname(os.path.abspath(reg.__code__.co_filename))
_spec = importlib.util.spec_from_file_location("verif_gen_servers", os.path.join(_V, "gen", "servers.py"))
_servers = importlib.util.module_from_spec(_spec)
_spec.loader.exec_module(_servers)


def _variants(tier):
    return [dict(name=n, defs=['CFG_HEADER="C03_primary_services-%s.gen.hpp"' % n]) for n in _servers.family("C03", tier)]


reg("C03",
    level="exploration",
    technique="exhaustive product enumeration over the real bluetoe::server<>: every generated server declaration mixing primary and secondary "
              "services (gen/servers.py, independent reference service table) x {Read By Group Type <<Primary Service>>, Find By Type Value "
              "<<Primary Service>> x every service UUID + unknown} x every (start,end) handle pair x MTU, each case continued with "
              "start := end group handle + 1 as the GATT discovery procedures do",
    rule="one evaluation = one (request kind, start, end, UUID value, MTU) case = the request plus its continuation requests through l2cap_input() "
         "compared with the reference service table; a class = request kind x kind of UUID value (primary / secondary / both / unknown, 16/128 bit) x "
         "position of start/end x first response (error code, one service, several services)",
    bound="quick: %d server declarations; thorough: %d; each with all (start,end) in {0..last+2, 0xFFFF}^2, every service UUID of the server, each with its first / last "
          "octet changed, every prefix and suffix (0..16 octets) of every service UUID, unknown 16/128 bit; MTU in {23,24,48,65,247}" % (len(_servers.family("C03", "quick")), len(_servers.family("C03", "thorough"))),
    units=[dict(src="harness/C03_primary_services.cpp", pre=["python3", "gen/servers.py", "emit"], variants=_variants)],
    quick_deadline=40, thorough_deadline=500,
    assumptions=[
        "configuration quantifier = the grammar of gen/servers.py (secondary first/middle/last/only, 16/128 bit, same UUID as a primary, fixed handle "
        "gaps, with and without include_service (also nested), 128 bit service UUIDs that start / end with the octets of a 16 bit service UUID of the same server, GAP service)",
        "declarations that do not compile are excluded: " + "; ".join("%s (%s)" % e for e in _servers.EXCLUDED),
        "demanded: every reported service is a declared primary service (never a secondary), with its declared UUID and end group handle (0xFFFF "
        "accepted for the last service of the database), ascending; Attribute Not Found only if no primary service (with that UUID) starts in the range; "
        "iterating start := end group handle + 1 enumerates every such primary service exactly once; Find By Type Value results lie inside the range",
        "whether Read By Group Type results lie inside the requested range is decided by C02 and not demanded again here",
        "a 16 bit service UUID sent in its 128 bit form to Find By Type Value is not part of the alphabet (the spec leaves the comparison to the value bytes)",
        "signatures raised because of the inconsistent handle table of a service with include_service (C04) carry the class service-with-include / cfg-with-include"],
    design_ref="3/C03")
