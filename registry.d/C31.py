reg("C31",
    level="model_checking",
    technique="(a) exhaustive product of L2CAP frames x prepared connection states x buffer availability on the real "
              "details::l2cap<> (recording channels and real ATT server + signaling_channel + security managers, spied at the "
              "channel boundary, exact-size heap buffers under ASan); (b) explicit-state BFS to the fixpoint over the real "
              "signaling_channel<> with a reference model and a lifecycle drain from every reachable state",
    rule="(a) one evaluation = handle_l2cap_input(frame) followed by transmit_pending_l2cap_output on a restored snapshot; "
         "classes = configuration/state/input outcome (dropped-why | deferred | channel reply kind)/output outcome. "
         "(b) state = byte image of the channel (+ l2cap layer) and the reference model, transition = one real call "
         "(queue request, output poll, one input PDU); classes = event kind -> outcome",
    bound="(a) frame sizes 0..12, 27, maximum_mtu_size+4; length field {0,n-1,n,n+1,0xFFFF}; CID {0,4,5,6,7,0x40,0xFFFF,0x0104,0x0500}; "
          "delivered frames: first payload byte 0..255 x second byte (quick: 9 values, thorough: 0..255) x 6 tail patterns; "
          "recording channels: reply {none,1 byte,everything offered} x pending-output mask 0..7 x output {2 bytes, everything offered}; "
          "states: fresh, ATT notification pending, signaling request queued / transmitted, ATT MTU 65; buffers {4, none}. "
          "(b) all reachable states (fixpoint, depth 768 covers the identifier wrap), 33 events",
    units=[dict(src="harness/C31_l2cap_mux.cpp", asan=True,
                extra_src=["@REPO@/bluetoe/utility/address.cpp"],
                variants=[dict(name="rec", defs=["CFG=0"]),
                          dict(name="legacy", defs=["CFG=1"]),
                          dict(name="lesc", defs=["CFG=2"]),
                          dict(name="fullsm", defs=["CFG=3"]),
                          dict(name="nosm", defs=["CFG=4"])]),
           dict(src="harness/C31_signaling.cpp", asan=True,
                variants=[dict(name="direct", defs=["VIA_L2CAP=0"]),
                          dict(name="via-l2cap", defs=["VIA_L2CAP=1"])])],
    quick_deadline=40, thorough_deadline=500,
    assumptions=[
        "link layer contract as implemented by link_layer<>::allocate_l2cap_output_buffer(): a request for n payload bytes yields a buffer of n+4 bytes "
        "(tests/l2cap_tests.cpp hands out exactly n bytes for n; handle_l2cap_input would then offer the channel n bytes at offset 4 - not judged)",
        "when no output buffer is available a well formed frame is neither delivered nor consumed (handle_l2cap_input returns false, pinned by "
        "l2cap_tests if_minumum_mtu_size_can_not_be_allocated_pdu_will_not_be_handled); also accepted for unknown CIDs",
        "frames larger than maximum_mtu_size+4 are not generated (the SDU buffer of the link layer cannot deliver them)",
        "identifier 0: the Core only says it 'shall never be used'; the tests pin silence (command_with_invalid_identifier). Demanded: nothing that is "
        "sent carries identifier 0; silence is accepted, a Command Reject is not demanded",
        "responses 0x13 without an outstanding request and incoming Command Reject (0x01): silence or Command Reject echoing the identifier are both accepted "
        "(tests pin a reject for the former, the Core allows dropping unexpected responses)",
        "a response 0x13 with the matching identifier but truncated (2 or 4 bytes) may or may not complete the request (statement silent)",
        "'identifiers advance per completed request' is read as: non-zero and different from the identifier of the request completed last",
        "the result field of the response (accepted / rejected) completes the request either way; no callback exists in signaling_channel<>",
        "not covered: reset of the signaling channel on disconnect / reconnect (the link layer never resets pending_status_)"],
    design_ref="3/C31")
