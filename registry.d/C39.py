reg("C39",
    level="model_checking",
    technique="explicit-state BFS (+ bounded run 'collect notifications, Flush, end_flash, read progress' from every state inside a clean flash session) over the real bootloader_service<> (controller + flash_buffer) inside a real bluetoe::server<>, "
              "driven through l2cap_input / l2cap_output / end_flash; a recording flash handler logs every memory touching call back "
              "(address, size); input PDUs end at an inaccessible page and the output buffer is an exact-size heap block under ASan; "
              "reference = address->byte map and checksum chain of a protocol conforming flash session",
    rule="state = byte image of the real server object (controller, page buffers, simulated flash) + connection data + reference "
         "model; transition = one real call (ATT write to control point / data, l2cap_output, confirmation, end_flash, ATT read); "
         "classes = distinct (request class, answer) kinds, kinds of handler accesses, kinds of notifications observed",
    bound="quick: all event sequences up to depth 4 (white list {[0x100,0x200)}) / 3 ({[0x100,0x140),[0x180,0x200)}), thorough: depth 5 / 4 "
          "(cut by the deadline if the machine is too slow: evidence then says exhaustive=false and the completed depth), page size {4,16}; alphabet: control point write opcode {0..9,0xFF} x length {1,2,5,9,17,20}, Start Flash "
          "with 9 (12) addresses around the region borders incl. 0 and MAX, Read and Get CRC with 14 (19) address pairs, data writes "
          "of {0,1,page-1,page,page+1,20} bytes, end_flash, l2cap_output, confirmation, ATT read of the three characteristics",
    units=[dict(src="harness/C39_bootloader.cpp", asan=True,
                # the two-region white lists have ~20% more events and ~3x the states: one level less
                variants=lambda tier: [
                    dict(name="p16r1", defs=["C39_PAGE=16", "C39_REGIONS=1"], args=["--depth", "5" if tier == "thorough" else "4"]),
                    dict(name="p4r1",  defs=["C39_PAGE=4",  "C39_REGIONS=1"], args=["--depth", "5" if tier == "thorough" else "4"]),
                    dict(name="p16r2", defs=["C39_PAGE=16", "C39_REGIONS=2"], args=["--depth", "4" if tier == "thorough" else "3"]),
                    dict(name="p4r2",  defs=["C39_PAGE=4",  "C39_REGIONS=2"], args=["--depth", "4" if tier == "thorough" else "3"])])],
    quick_deadline=60, thorough_deadline=540,
    assumptions=[
        "memory touching call backs: start_flash, read_mem, public_read_mem, public_checksum32, checksum32(address,size); zero-size "
        "calls touch nothing; run(address) is not a flash/read/checksum access and is only recorded (bluetoe does not check it)",
        "content and checksum oracle for a flash session: Start Flash inside a region, data writes that are all accepted, optionally "
        "one Flush; another control point procedure in between (Get CRC, Get Version, Start, unknown opcode ...) keeps the reference "
        "alive: bootloader.md lets it end the flash mode, bluetoe stays in flash mode for some of them - IF the next data write or "
        "Flush is accepted it has to continue exactly at the client's position with the same checksum chain, if it is refused the "
        "session is over (progress notifications are not predicted after such a procedure); after a rejected data write (buffer "
        "overrun) or an ATT read the client has lost track and only the white list oracle stays on",
        "control point answers are predicted only if one procedure is outstanding at a time (bootloader.md); Start Flash answer = "
        "crc(start address) even if data was written before the notification left",
        "call backs requested by the controller (control_point_notification_call_back / data_indication_call_back) are served "
        "right after the call into bluetoe returned; start_flash writes the simulated flash immediately, end_flash is an event",
        "over-reads of the written value are detected by an inaccessible page right behind the PDU (SIGSEGV), other memory errors by ASan",
        "address size 8 (host build); MTU 23; all three CCCDs enabled by the fixture",
    ],
    design_ref="3/C39")
