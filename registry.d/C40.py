reg("C40",
    level="model_checking",
    technique="explicit-state BFS to fixpoint over the real cycling_speed_and_cadence<> service inside a real bluetoe::server<> "
              "(driven by l2cap_input / l2cap_output and the handler completion call), reference FIFO of accepted procedures, "
              "bounded-liveness probe (enable indications, complete, poll, confirm, then a well-formed procedure must be accepted "
              "and answered exactly once) after every transition; states that fail it are reported and not expanded",
    rule="state = byte image of the real server object + connection data (CCCDs, notification queue) + reference model; "
         "transition = one real call (ATT write to the control point or its CCCD, l2cap_output, handle value confirmation, "
         "confirm_cumulative_wheel_revolutions, disconnect+reconnect); classes = distinct (request class, control point state, "
         "ATT answer) and (poll situation, response opcode/value) kinds observed",
    bound="both tiers: all reachable states (fixpoint, about 1.3e3 states per configuration) of the alphabet control point write "
          "opcode {0,1,2,3,4,0xFF} x length {1,2,5,6} (+ Update Sensor Location with an RFU location), CCCD on/off, l2cap_output, "
          "confirmation (only for a received indication), handler completion (only when requested), disconnect+reconnect; "
          "configurations: multiple sensor locations / single sensor location",
    units=[dict(src="harness/C40_csc_control_point.cpp",
                variants=[dict(name="multi", defs=["CSC_MULTI=1"]),
                          dict(name="single", defs=["CSC_MULTI=0"])])],
    quick_deadline=20, thorough_deadline=120,
    assumptions=[
        "'procedure already in progress' = ATT error 0xFE (bluetoe) or 0x80 (CSCS 1.0); any other error is 'rejected for another reason'",
        "well-formed = Set Cumulative Value with 4 parameter bytes, Update Sensor Location with 1, Request Supported Sensor "
        "Locations with none; unknown opcodes may be accepted (answered 'op code not supported') or rejected with any error but 0xFE/0x80",
        "a write that is accepted while another procedure is pending is tolerated (queued in the reference FIFO); responses must then come in order",
        "the client is well behaved on the ATT level: it confirms only indications it received; the handler completes only when asked "
        "and no disconnect happens between set_cumulative_wheel_revolutions() and its completion",
        "a response that was ready while the client had indications disabled at l2cap_output time may be dropped without being a "
        "violation; blocking the control point afterwards is one (signature ...:after-indication-dropped-cccd-off)",
        "after a disconnect the pending procedure of the old connection is void: a new connection must be able to run procedures",
    ],
    design_ref="3/C40")
