reg("C08",
    level="model_checking",
    technique="explicit-state BFS to fixpoint over the real bluetoe::server<max_mtu_size<M>> + connection_data (byte image = state) with Exchange MTU requests as events; "
              "after every transition 22 probe requests (long read, read blob at 7 offsets, read by type, find information, read multiple, read by group type, "
              "find by type value, error response, notification and indication through l2cap_output) and up to 32 requests that are longer than the negotiated MTU (mtu+1 and 512 "
              "octets; 16 request types incl. Prepare Write, Write, Read Multiple, Exchange MTU: the answer has to stay within the MTU) are run on the reached state and compared with the reference "
              "mtu = min(server max, last valid client MTU); ASan with exact-size heap blocks for every request and 512 byte response blocks",
    rule="state = byte image of server + connection + bound values + reference mtu; transition = one Exchange MTU request through l2cap_input; evaluation = one ATT "
         "request/l2cap_output call; classes = (client value class x accepted/rejected x mtu grows/shrinks/unchanged), error code of rejections, fill state of list responses",
    bound="server max_mtu_size in {23,27,65,100,247} (one executable each). quick: client MTU in {0,22,23,24,50,max-1,max,max+1,0x0100,0xFFFF} + malformed lengths {1,2,4,5}; "
          "thorough: every client MTU 0..max+2 plus {255,256,257,0x0117,0x1700,0x7FFF,0x8000,0xFF17,0xFFFE,0xFFFF} + malformed lengths. BFS runs to fixpoint, i.e. covers "
          "every sequence of exchanges over the alphabet of any length (requested: <=2 quick / <=3 thorough)",
    units=[dict(src="harness/C08_att_mtu.cpp", asan=True,
                variants=[dict(name="mtu23", defs=["MTU=23"]), dict(name="mtu27", defs=["MTU=27"]), dict(name="mtu65", defs=["MTU=65"]),
                          dict(name="mtu100", defs=["MTU=100"]), dict(name="mtu247", defs=["MTU=247"])])],
    quick_deadline=40, thorough_deadline=600,
    assumptions=["'last valid client MTU': a later valid Exchange MTU request replaces the earlier one (the statement's wording; ATT allows only one exchange per connection)",
                 "rejection of an invalid exchange = any Error Response to opcode 0x02 (tests pin code 0x04; the code is recorded as class only)",
                 "l2cap_output is probed with out_size = server maximum (what bluetoe's l2cap<> layer passes) and with 512; a notification/indication longer than the negotiated "
                 "MTU is a violation for either buffer size because the statement names notifications and indications",
                 "the servers carry shared_write_queue<600> so that an over-long Prepare Write Request is accepted; its response has to be the request cut at the MTU",
                 "list responses (read by type of declarations, find information) only have to be well formed and <= mtu; maximal packing is recorded as class, not demanded",
                 "the attribute table has 38 attributes, so Find Information fills the PDU only for mtu <= 154; longer MTUs are filled by the long read / notification probes",
                 "a probe failure does not stop the exploration behind it (state is restored after every probe); only its first (shortest) occurrence is reported"],
    design_ref="3/C08")
