
def _sm_variants():
    v = []
    def add(name, smv, i, o, oob=0, bond=0, mitm=0, thorough_only=False, tdepth=1000):
        v.append(dict(name=name, thorough_only=thorough_only,
                      defs=["SMV=%d" % smv, "IO_IN=%d" % i, "IO_OUT=%d" % o, "OOB=%d" % oob, "BOND=%d" % bond, "MITM=%d" % mitm, "TDEPTH=%d" % tdepth]))
    # legacy_security_manager: {no input, yes/no, keyboard} x {no output, numeric output} (+OOB, +bonding, +MITM flag)
    add("legacy-noin-noout", 0, 0, 0, thorough_only=True)
    add("legacy-noin-display", 0, 0, 1, thorough_only=True)
    add("legacy-keyboard-noout", 0, 2, 0, thorough_only=True)
    add("legacy-keyboard-display", 0, 2, 1)
    add("legacy-noin-noout-oob-mitm", 0, 0, 0, oob=1, mitm=1)
    add("legacy-noin-display-bonding", 0, 0, 1, bond=1)
    add("legacy-yesno-noout", 0, 1, 0, thorough_only=True)
    add("legacy-yesno-display", 0, 1, 1, thorough_only=True)
    add("legacy-keyboard-display-oob", 0, 2, 1, oob=1, thorough_only=True)
    # lesc_security_manager (pairing_keyboard does not compile with the LESC managers: no sm_pairing_request_yes_no)
    add("lesc-noin-noout", 1, 0, 0, thorough_only=True)
    add("lesc-yesno-display", 1, 1, 1)
    add("lesc-noin-noout-oob-mitm", 1, 0, 0, oob=1, mitm=1, thorough_only=True)
    add("lesc-yesno-display-bonding", 1, 1, 1, bond=1)
    add("lesc-yesno-noout", 1, 1, 0, thorough_only=True)
    add("lesc-noin-display", 1, 0, 1, thorough_only=True)
    # security_manager (legacy + LESC)
    add("combined-noin-noout", 2, 0, 0, thorough_only=True)
    add("combined-yesno-display", 2, 1, 1)
    add("combined-noin-display", 2, 0, 1)
    add("combined-noin-noout-oob-mitm", 2, 0, 0, oob=1, mitm=1)
    add("combined-yesno-display-bonding", 2, 1, 1, bond=1, tdepth=12)   # largest space: depth bound instead of fixpoint
    add("combined-yesno-noout", 2, 1, 0, thorough_only=True)
    # no_security_manager
    add("nosm", 3, 0, 0)
    return v

_SM_WORLD = ("explicit-state BFS (mc::Bfs) over the real <manager>::impl + channel_data_t<link_state> driven through l2cap_input / l2cap_output "
             "with a tagging fake toolbox (c1,s1,f4,f5,f6,g2,p256 = injective hashes; constant srand/nonce/keys), scripted IO capabilities, "
             "single-slot bond DB and a reference central + reference acceptance automaton; ")
_SM_RULE = ("state = byte image of security manager object + connection data + IO script + bond DB + reference; transition = one real call "
            "(l2cap_input with one PDU variant, l2cap_output poll, yes_no_response, link-layer encryption switch as link_layer.hpp does it, "
            "initial configuration choice); classes = distinct (PDU kind, variant class, reference phase, outcome/reason) and completion / key / status kinds observed")
_SM_BOUND = ("per security manager variant x IO configuration (10 units quick, 22 thorough): quick = all event sequences up to depth 8 (from the fresh state and from the scripted start states) de-duplicated on the state image; "
             "thorough = full reachable state space (fixpoint); combined-yesno-display-bonding: depth 12. Alphabet: every SMP opcode 0x00..0x0f + empty PDU; request/confirm/random/public key/DHKey check each as "
             "{correct value, wrong values (garbage; first / middle / last / all-but-last octet wrong for Mconfirm and Ea; confirm values for passkey mod 65536 and passkey with changed upper half), length-1, length+1, invalid parameter (io 5, oob 2, key size 6/17, key distribution 0xf0)}; user yes/no at any time; output poll; "
             "encryption on (pairing key / bond key) and off; find_key probes for 24 EDIV/Rand pairs (zero, single bits in every 16 bit lane incl. bit 32 and 63, the bonded pairs and their one-bit neighbours) after every step; bond DB (earlier entry + bond made on this connection) preloaded {empty, this peer, other peer, LESC bond under ediv=rand=0 with a recognisable key}; scripted prefixes as additional start states (aborted / declined numeric comparison whose Ea was already verified, completed legacy just works / passkey pairing, completed LESC just works / numeric comparison pairing)")
_SM_ASSUME = [
    "toolbox is a fake: 'cryptographically correct' means equal to the tagged hash of the same inputs; srand, nonce, passkey, key pair are constants (1-2 patterns per value kind)",
    "user answers are asynchronous (the scripted application stores the pairing_yes_no_response and answers in a later event); synchronous answers are covered by /repo/tests",
    "a Pairing Request after a completed pairing may be accepted or rejected (statement silent; the implementation rejects and drops the key)",
    "a wrong DHKey check that arrives while the user is asked may be rejected at once or held back; a correct one must be held back (pinned by authentication_stage_tests2)",
    "pairing_keyboard cannot be instantiated with lesc_security_manager / security_manager (compile error), so keyboard configurations exist for the legacy manager only",
    "encryption events emulate link_layer.hpp (LL_ENC_REQ -> find_key, LL_START_ENC_RSP -> is_encrypted(true); pairing_status(local_device_pairing_status()))",
]

reg("C32",
    level="model_checking",
    technique=_SM_WORLD + 'oracle: every PDU/poll outcome must be the one the reference automaton allows (Pairing Failed + idle for anything out of order, malformed or invalid; Srand only after a confirm value that the random opens; Eb only after a verified Ea)',
    rule=_SM_RULE,
    bound=_SM_BOUND,
    units=[dict(src="harness/C32_sm.cpp", defs=["ORACLE=32", "QDEPTH=8"],
                extra_src=["@REPO@/bluetoe/utility/address.cpp"], variants=_sm_variants())],
    quick_deadline=40, thorough_deadline=400,
    assumptions=_SM_ASSUME + [],
    design_ref="3/C32")
