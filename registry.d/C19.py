def _c19_rx_variants(tier):
    v = []
    for mtu in (24, 65, 100):
        for mx in (29, 60, 251):
            v.append(dict(name="mtu%d-max%d" % (mtu, mx), defs=["C19_MTU=%d" % mtu, "C19_MAX=%d" % mx]))
    v.append(dict(name="nrf-mtu65-max29", defs=["C19_MTU=65", "C19_MAX=29", "C19_NRF=1"]))
    v.append(dict(name="nrf-mtu24-max60", defs=["C19_MTU=24", "C19_MAX=60", "C19_NRF=1"], thorough_only=True))
    return v


def _c19_tx_variants(tier):
    v = []
    for mtu in (24, 65, 100):
        for mx in (29, 60, 251):
            quick = (mtu, mx) in ((24, 29), (65, 29), (65, 60), (100, 29), (100, 60), (100, 251))
            v.append(dict(name="mtu%d-max%d" % (mtu, mx), defs=["C19_MTU=%d" % mtu, "C19_MAX=%d" % mx], thorough_only=not quick))
    v.append(dict(name="nrf-mtu65-max29", defs=["C19_MTU=65", "C19_MAX=29", "C19_NRF=1"]))
    v.append(dict(name="nrf-mtu100-max60", defs=["C19_MTU=100", "C19_MAX=60", "C19_NRF=1"], thorough_only=True))
    return v


reg("C19",
    level="model_checking",
    technique="explicit-state BFS over the real ll_l2cap_sdu_buffer<ll_data_pdu_buffer<..>, .., MTU> placed in an exact-size heap block under ASan: a reference central feeds every sequence of start/continuation/control/LLID-0 PDUs through the radio interface and reassembles what is transmitted; field-wise frame diff (offsetof) of the object against its pre-image, payload non-interference re-run, delivered SDU explained by the fragments sent, bounded-liveness drain on the transmit side, plus the product of every SDU size 0..MTU x ring fill level",
    rule="state = byte image of the whole object + reference central; transition = one real call sequence (radio: allocate_receive_buffer+received; link layer: next_ll_l2cap_received x2 [+free]; L2CAP: allocate+commit; exchange; poll; max_tx_size switch); classes = (event kind, outcome, input class) kinds",
    bound="MTU in {24,65,100} x max_rx/max_tx in {29,60,251} (+ nRF encrypted layout for 65/29, thorough also 24/60 and 100/60). RX: full alphabet (length field {1,MTU,MTU+1,0xffff} (thorough +0, MTU-1) x body {0,3,(4),L+4,max}; continuation {0,1,10,max,rest}; control; LLID 0; consume) to depth 4 (max 251: 3) and reduced alphabet (8 events: first fragment of the largest SDU, unfragmented SDU, too large start, too short start, continuation max, continuation rest, control, consume) to depth 7 (thorough 9; max 251: 5 / 7; MTU 24 with max 60: 6 / 8). TX: 11 SDU sizes around the fragment boundaries + control PDUs 1/27 + exchange + poll + max_tx_size switch to depth 5 (thorough 7) for max 29 and depth 4 (thorough 5) where max_tx_size can be switched (max != 29), with a 40-exchange drain from every state; product run over every SDU size 0..MTU x 0..3 queued PDUs x 3 ring positions x both max_tx_size settings",
    units=[dict(src="harness/C19_rx.cpp", asan=True, flags=["-I/verif/harness/C18_stub"], variants=_c19_rx_variants),
           dict(src="harness/C19_tx.cpp", asan=True, flags=["-I/verif/harness/C18_stub"], variants=_c19_tx_variants)],
    quick_deadline=40, thorough_deadline=540,
    assumptions=[
        "rings hold two PDUs of the maximum size (2*(max+layout overhead)+3 bytes, 61 for the default 29 as in link_layer's default buffer_sizes<>), so the empty-ring allocation defect of C18 cannot interfere",
        "the radio never delivers a PDU longer than max_rx_size(); PDUs with LLID 0 or length 0 are dropped by ll_data_pdu_buffer before the SDU layer (C15)",
        "free_ll_l2cap_received() is called only after next_ll_l2cap_received() returned something (documented precondition; link_layer::handle_received_data does exactly that)",
        "a reassembled SDU may be the announced-length prefix of start+continuations (surplus bytes of the last fragment may be dropped); what happens to malformed input otherwise (dropped silently) is not judged; loss of well-formed SDUs is not judged (the statement is a safety statement) except through 'handed out twice'",
        "every start fragment - accepted, too large, too short or handed out unfragmented - ends an incomplete SDU (Core spec reading and what the repaired code does): continuations that follow belong to that start fragment only and are dropped if it was rejected or handed out; completing the old SDU with them counts as a wrong SDU",
        "TX: a fragment must not exceed the largest max_tx_size() in effect since its SDU was committed; control PDUs may overtake fragments that were not yet in the ring (legal interleaving)",
    ],
    design_ref="3/C19")
