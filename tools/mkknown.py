#!/usr/bin/env python3
"""(re)writes known_findings.json from the tables below; commit hashes of repairs are looked up in /repo by subject."""
import json, subprocess, os
V = os.path.dirname(os.path.dirname(os.path.abspath(__file__)))
log = subprocess.check_output(["git", "-C", "/repo", "log", "--format=%h %s"]).decode().splitlines()


def h(subject_start):
    for l in log:
        if l.split(" ", 1)[1].startswith(subject_start):
            return l.split()[0]
    raise SystemExit("no commit: " + subject_start)


FIXED = [
 ("C12", "fix: single-entry notification queue level", "notification_queue_impl<1>: queue_notification(0) refused (and the request lost) while an indication of the same characteristic was pending, and vice versa (queue-return:notification:refused-while-indication-pending:levelsize1)"),
 ("C13", "fix: notification queue flags are not lost", "add()/remove() were read-modify-write accesses to a byte shared by four characteristics: request queued from an interrupt between load and store of a dequeue lost (not-linearizable:isr-producer:lost, thread:lost), stale store duplicated a notification (isr-consumer:duplicated, thread:duplicated)"),
 ("C14", "fix: automatic scan response data honours", "scan_response_data( buffer, 0|1 ) wrote two octets and returned 2 (writes-beyond-size:scan-auto:terminator)"),
 ("C38", "fix: nRF52 passkey generation", "create_passkey() returned three raw random octets, e.g. RNG 00 00 10 -> 1048576 (passkey-out-of-range)"),
 ("C31", "fix: signaling channel only accepts a response", "Connection Parameter Update Response with a foreign identifier (13 77 ...) or without identifier (13) completed the request (signaling:response-completes-request:foreign-identifier / :truncated-without-identifier)"),
 ("C31", "fix: ATT server ignores an empty L2CAP payload", "L2CAP frame 00 00 04 00 made the ATT server read the opcode one octet behind the frame (memory:asan:input:cid-att:payload-empty)"),
 ("C01", "fix: ATT server does not respond to signed write", "0xD2, 0x1B and 0x1D from the client were answered with an Error Response (framing:response-to-command:signed-write-command, framing:response-to-notification, framing:response-to-indication)"),
 ("C21", "fix: instants of connection update, channel map", "LL_CHANNEL_MAP_REQ / LL_CONNECTION_UPDATE_IND / LL_PHY_UPDATE_IND with instant == current counter (or past) accepted, never applied, data blocked (instant-accepted-never-applied:*, instant-passed-accepted:*)"),
 ("C21", "fix: a control PDU waiting for its instant is copied", "deferred control PDU pointed into the receive ring and was overwritten by PDUs received before the instant (pending-procedure-overwritten-by-received-data:*)"),
 ("C22", "fix: connection intervals outside of 7.5 ms", "CONNECT_IND with interval 0..5 or > 3200 accepted (connect-accepted-invalid:interval-below-7.5ms / interval-above-4s)"),
 ("C22", "fix: supervision timeout has to be larger", "timeout == (1+latency)*interval*2 accepted (connect-accepted-invalid:timeout-equals-2x-latency-interval)"),
 ("C22", "fix: connect request with a transmit window size of 0", "winSize 0 or >= interval accepted (connect-accepted-invalid:winsize-zero / winsize-above-interval-minus-1.25ms)"),
 ("C22", "fix: a connection attempt is given up after six", "short supervision timeout ended a connection attempt before the sixth window (supervision:closed-early:connecting-after-supervision-timeout)"),
 ("C27", "fix: LL_VERSION_IND is sent only once", "central's answer to the peripheral's own LL_VERSION_IND was answered with a second LL_VERSION_IND (version-ind:answered-although-own-version-ind-sent)"),
 ("C27", "fix: the procedure response timeout is only stopped", "unrelated LL_VERSION_IND / connection update stopped the 40 s response timer of another procedure (response-timeout:timer-stopped-by-unrelated-pdu:*)"),
 ("C28", "fix: LL_START_ENC_RSP is only accepted", "unsolicited LL_START_ENC_RSP set the link to encrypted; encryption procedure state survived a disconnect (encrypted-without-key:start-enc-rsp-outside-procedure:*, receive-encryption-on-without-procedure:enc-req-and-terminate-in-one-event)"),
 ("C29", "fix: connection callbacks are delivered after every", "4 x LL_REJECT_IND + LL_TERMINATE_IND in one event overflowed the callback ring, 'closed' never delivered (closed-not-reported:event-queue-overflow)"),
 ("C29", "fix: a connection that is reported as closed", "disconnect() before the first connection event: closed without established (established-skipped:disconnect-before-first-event)"),
 ("C10", "fix: notifying by value finds the right characteristic", "notify( value ) with higher_outgoing_priority<> queued another characteristic (wrong-characteristic-notified:queue-index-of-other-characteristic:by-value-request)"),
 ("C11", "fix: an indication that is not sent does not block", "indicate() of a characteristic the client did not subscribe to blocked all later indications (liveness:indication-never-sent:after-indication-of-unsubscribed-characteristic-had-its-turn)"),
 ("C24", "fix: a variable advertising channel map without channel 38", "map {37,39} advertised on 38 (channel:disabled-channel-scheduled:gap-map)"),
 ("C24", "fix: restarted advertising begins with the first", "restart after a partial advertising event began on 38/39 (event-start:not-lowest-enabled-channel:restart-after-partial-event)"),
 ("C24", "fix: start_advertising() does not schedule a second", "start_advertising() while the last advertisement was still pending scheduled a second one (schedule:advertisement-scheduled-while-one-is-pending)"),
 ("C25", "fix: nRF52 scan request filter uses the address type", "scanner address type taken from the scan response's TxAdd (scan:answered-but-reference-rejects:filtered-out:listed-with-other-address-type, scan:valid-request-not-answered:listed-scanner)"),
 ("C39", "fix: bootloader read procedure checks the length", "one octet write 08 read 16 octets behind the value (over-read:control-point-write:opcode08-short:reads-behind-written-value)"),
 ("C39", "fix: bootloader checks the page that follows", "Start Flash(0x1ff) + 17 octets flashed page 0x200 outside the white list (white-list:page-continuation-unchecked:flash)"),
 ("C39", "fix: bootloader start address has to be a flashable byte", "Start Flash( region end ) accepted (white-list:start-address-at-region-end-accepted:flash)"),
 ("C39", "fix: bootloader Get CRC and Read do not move", "Get CRC / Read overwrote the flash position (white-list:start-address-shared-with-read-or-crc-procedure:flash / :read)"),
 ("C39", "fix: bootloader start flash response carries", "start flash response checksum covered data received before it was sent (checksum:start-flash-response-covers-data-received-before-it-was-sent)"),
 ("C39", "fix: bootloader flash completion does not free", "stale flash completion freed the buffer being filled (flush:refused-with-pending-data:after-end_flash-of-an-earlier-session)"),
 ("C40", "fix: cycling speed control point only blocks", "malformed control point write blocked all later procedures (blocked-in-progress:after-rejected-malformed-write)"),
 ("C19", "fix: L2CAP reassembly stays within its buffer", "start(65)+continuations overflowed receive_buffer_ (rx-overflow:fragment-exceeds-remaining), start fragment during reassembly mixed SDUs (rx-overflow:start-during-reassembly, rx-overflow:rejected-start-during-reassembly, rx-sdu-mismatch:start-during-reassembly, rx-sdu-mismatch:rejected-start-during-reassembly), pass-through PDU during reassembly delivered twice (rx-duplicate-delivery:passthrough-pdu-during-reassembly)"),
 ("C23", "fix: output that is already waiting is generated before", "notification queued before end_event() waited for the full peripheral latency (ll-plan:outgoing-data-created-after-planning-waits-for-latency)"),
 ("C36", "fix: legacy pairing response of the combined security manager", "combined SM legacy response with OOB flag 0 although OOB data was used for the method (response:oob-flag-missing:combined:legacy)"),
 ("C36", "fix: combined security manager does not select LESC OOB", "request 01 00 00 08 10 07 07 with legacy OOB data present stored oob_authentication for LESC (method:oob-wrongly-chosen:combined:lesc)"),
 ("C06", "fix: cstring_value and fixed_blob_value honour no_read_access", "cstring_value + no_read_access readable (no-read-access-ignored:cstring-wrapper)"),
 ("C06", "fix: a write to a fixed value without read access", "fixed_uintN_value + no_read_access: write answered with Read Not Permitted (wrong-error-code:fixed:write:got-02-want-03)"),
 ("C32", "fix: LESC numeric comparison sends its DHKey check only", "Eb sent and pairing completed without (or with a wrong) Ea (order:eb-sent-without-verified-ea:ea-not-received / :wrong-ea-received-while-waiting)"),
 ("C33", "fix: LESC numeric comparison sends its DHKey check only", "LTK of the unverified pairing offered and bonded (keys:offered-without-pairing-or-bond:ediv0-rand0:unverified-completion, keys:bond-stored-without-pairing:unverified-completion)"),
 ("C32", "fix: a user response to a pairing request is ignored", "late user answer after an aborted pairing completed it (order:stale-user-answer-changes-pairing-state:after-abort)"),
 ("C35", "fix: LESC security manager reports an authenticated key", "LESC-only SM reported unauthenticated after numeric comparison (status:unauthenticated-but-exchange-authenticated:lesc-numeric-comparison)"),
 ("C35", "fix: LESC pairing is only reported as authenticated after", "combined SM reported authenticated for LESC passkey/OOB that run Just Works (status:authenticated-but-exchange-unauthenticated:lesc-passkey-io / :lesc-oob-indicated)"),
 ("C07", "fix: Prepare Write checks the attribute with the security", "Prepare Write to a requires_encryption value refused with 0x05 on an encrypted link (prepare-refused-but-write-permitted:requires_encryption-value:encrypted-link)"),
 ("C05", "fix: Prepare Write checks the attribute with the security", "Prepare Write on an unencrypted link with a key answered 0x05 instead of 0x0F (wrong-error-code:prepare-write:got-05-want-0f)"),
 ("C01", "fix: Prepare Write checks the attribute with the security", "Prepare Write 16 04 00 00 00 to a CCCD / to a control point value dereferenced a null client configuration (crash:prepare-write:cccd, crash:prepare-write:value-control-point)"),
 ("C07", "fix: Prepare Write does not call write handlers", "Prepare Write called the user write handler with size 0 (prepare-changes-value:write-handler-called-with-zero-length)"),
 ("C07", "fix: link layer tells the server when a connection ended", "prepared writes survived a disconnect and were executed by the next client (prepared-writes-survive-disconnect:link-layer-never-calls-client_disconnected)"),
 ("C08", "fix: notifications and indications are clipped", "notification of a 250 octet value was 65 octets long with MTU 23 (pdu-exceeds-mtu:l2cap_output:buffer=server-max / buffer=512)"),
 ("C02", "fix: an ending handle within a gap of fixed handles", "Read By Type 08 0100 0400 0328 returned handle 0x20 (handle-out-of-range:read-by-type:above-end:end-off-attribute)"),
 ("C02", "fix: Read By Group Type compares the ending handle", "10 0100 0300 0028 also returned 0x0004..0x0006 (handle-out-of-range:read-by-group-type:above-end:*)"),
 ("C02", "fix: an ending handle before the first attribute", "04 0100 0100 returned the whole table (handle-out-of-range:find-information:above-end:end-off-attribute; C03 fbtv-handle-out-of-range:above-end:end-off-attribute)"),
 ("C02", "fix: Find Information answers Attribute Not Found", "04 0400 0400 inside a gap answered 05 01 (empty-data-response:find-information:no-match)"),
 ("C02", "fix: Read By Type finds characteristic values by their 128", "Read By Type with a 128 bit UUID never matched (not-found-although-match:read-by-type:type128)"),
 ("C02", "fix: automatically generated characteristic UUIDs", "auto UUID characteristic reported the service UUID (type-mismatch:find-information:auto-uuid-characteristic; C04 char-decl:wrong-uuid:auto-uuid-characteristic)"),
 ("C02", "fix: Read By Type and Find By Type Value responses longer", "Read By Type 08 0400 0700 102a at MTU 512 returned 256 octets with pair length 255: collect_attributes::size() was 8 bit (malformed-response:read-by-type:partial-entry)"),
 ("C03", "fix: primary service discovery does not report secondary", "10 0100 ffff 0028 reported a secondary service (rbgt-returns-secondary, fbtv-returns-secondary)"),
 ("C04", "fix: attribute handles of a service with include", "service with include_service<>: last attributes got handle 0 (handle-by-index:mismatch:service-with-include and all *:cfg-with-include / *-with-include signatures of C02/C03)"),
 ("C17", "fix: a new PDU with a failing MIC is not acknowledged", "new data PDU with MIC error answered with advanced NESN (nesn-advanced-on-mic-failure:new-pdu)"),
]
FINDINGS = [
 dict(property="C02", signature="closure-missed:find-information:skipped-other-uuid-size", what="Find Information stops at the first attribute with the other UUID size only if it is the first one; otherwise attributes of the other UUID size are skipped and never reported by iterating from last+1 (mix128: iterating 1..4 yields 1,2,4, never 3); pinned by tests/att/find_information_tests.cpp ...all_16bit_uuids_will_be_served"),
 dict(property="C02", signature="closure-missed:read-by-type:skipped-other-value-length", what="Read By Type skips matching attributes whose value length differs from the first one and continues; the skipped ones are never reported by iterating from last+1 (mix128: 0x2803 yields 2,6, never 4); pinned by tests/att/read_by_type_tests.cpp read_multiple_attributes_within_mixed_size"),
 dict(property="C04", signature="include-decl:wrong-handles:fixed-handles", what="include declaration of a service that has attribute_handle<> pinned handles names index based handles (inclfixed: 1..3, real range 8..10): service_handles<> ignores fixed handles; a repair needs a handle mapping for secondary_service<> (tests/service_tests.cpp stops compiling with the simple translation)"),
 dict(property="C06", signature="no-read-access-ignored:handler", what="characteristic with read handler + no_read_access (+ notify): properties show no Read bit, but a Read Request returns the value: value_handler_base never consults no_read_access; the notification read in server::l2cap_output uses the same access type, so a repair needs a new access type"),
 dict(property="C18", signature="alloc-refused:empty-ring:size-le-Size-1", what="pdu_ring_buffer: pop_end() leaves front_ == end_ in mid-buffer, the emptied ring then refuses allocations its documentation promises (Size 12: alloc 3, push, pop, alloc 10 refused); the one line repair breaks three tests of tests/link_layer/ring_buffer_tests.cpp that pin the placement (when_splitted_full_allocation_not_possible, access_to_allocated_small_block_at_the_end, nearly_max_alloc_from_empty_buffer)"),
 dict(property="C18", signature="rx-buffer-refused:receive-ring-empty", what="same mechanism seen through ll_data_pdu_buffer<61,61>: max_rx_size(31), one 29 octet PDU received and freed, allocate_receive_buffer() is empty for good although the ring is empty"),
 dict(property="C36", signature="method:mitm-rule-ignored:legacy", what="legacy_select_pairing_algorithm ignores AuthReq: with neither side asking for MITM protection (e.g. local DisplayOnly, request 01 02 00 00 10 07 07) Passkey Entry is chosen where Core Vol 3 Part H 2.3.5.1 demands Just Works; not repaired because pairing_tests.cpp (Passkey_Entry_IUT_Responder__Success, AuthReq 0 on both sides) pins the behaviour"),
 dict(property="C36", signature="method:mitm-rule-ignored:lesc", what="lesc_select_pairing_algorithm ignores AuthReq: request 01 02 00 08 10 07 07 to a DisplayOnly device stores passkey entry instead of Just Works; pinned by the numeric comparison tests that use MITM = 0 on both sides (authentication_stage_tests1/2, pairing_tests)"),
 dict(property="C25", signature="scan:answered-but-reference-rejects:unresolved-address-skips-all-checks", what="nrf52_radio_base::is_valid_scan_request(): 'if ( Hardware::resolving_address_invalid() ) return true;' answers any received PDU (shortest: type 0, length 0) with a scan response when the address resolver reports 'not resolved'; needs a third ISR outcome (ignore the PDU), not a local repair"),
 dict(property="C27", signature="response-timeout:closed-although-answered:connection-update-ind-before-instant", what="own connection parameter request answered by LL_CONNECTION_UPDATE_IND whose instant lies behind the 40 s response timeout (4 s interval, instant +3): the timer is only stopped at the instant and the link is closed with 0x22 although the central answered; repair would let a new own procedure start before the instant (design decision)"),
 dict(property="C40", signature="blocked-in-progress:after-reconnect-while-pending", what="csc control point: procedure accepted, link dropped before the response indication: procedure_in_progress_ lives in the server mixin, services have no disconnect hook, every later write is refused with 0x80 on all following connections"),
 dict(property="C40", signature="blocked-in-progress:after-indication-dropped-cccd-off", what="csc control point: procedure accepted, client switches indications off before the response is sent: server::l2cap_output drops the indication without calling the read handler that clears procedure_in_progress_"),
]
out = dict(
 comment="findings: genuine defects recorded, not repaired (signature = exact violation signature, or an fnmatch pattern for one family with one cause). fixed: repaired by a 'fix:' commit in /repo - suppresses nothing. Written by tools/mkknown.py, never at check time.",
 findings=FINDINGS,
 fixed=["fixed: property=%s %s %s" % (p, h(s), w) for p, s, w in FIXED])
json.dump(out, open(os.path.join(V, "known_findings.json"), "w"), indent=1)
print(len(FINDINGS), "findings,", len(FIXED), "fixed")
