#!/usr/bin/env python3
"""imports verified seeded changes into /verif/seeded/<id>/ : tools/import_seeds.py <try_seed logs...>
reads /tmp/w/suite_results.txt for the repository-suite result of each seed"""
import sys, os, re, json, shutil
V = "/verif"
suite = {}
if os.path.exists("/tmp/w/suite_results.txt"):
    for l in open("/tmp/w/suite_results.txt"):
        p = l.split()
        suite[p[0]] = " ".join(p[1:])
MISSED_FIRST = {
 "C01-1": "missed at first; C01 gained the oracle 'a request shorter than its mandatory fields must not get a success response'",
 "C27-2": "missed at first; C27 gained a boundary-value family for LL_CONNECTION_PARAM_REQ / LL_PHY_UPDATE_IND",
 "C15-1": "missed at first; C15 world gained the 'new connection' event (reset_pdu_buffer on the same object)",
 "C16-1": "missed at first; C15/C16 world gained new non-empty PDUs with reserved LLID 0",
 "C19-1": "missed at first; C19 reference now lets every start fragment (also passed through / too short) abort the SDU in progress, deep alphabet extended",
 "C25-2": "missed at first; C25 gained change_advertising<>() between scheduling a PDU and the answer (all ordered type pairs)",
 "C02-2": "missed at first; C02 gained a max_mtu_size<512> configuration with 250..300 octet values and client MTUs 255..260, 512 (this also exposed a genuine 8 bit size wrap, repaired)",
 "C04-1": "missed at first; C04 gained nested include configurations",
 "C04-2": "missed at first; C04 gained services combining attribute_handle<> with include_service<>",
 "C32-2": "missed at first (needs two pairings, depth 12 > quick bound 10); the SM world gained scripted prefixes as additional start states",
 "C33-2": "missed at first (hidden behind a C32 failure in the same step); reference goes idle whenever Pairing Failed had to be answered, key probe judged against idle",
 "C13-2": "missed at first (plain bool / bit-field state cannot be split by the byte hook); C13 gained the instruction-level interrupt engine (harness/C13_singlestep.cpp)",
 "C07-2": "missed at first; C07 world gained a requires_encryption write-handler characteristic and a protected CCCD",
 "C05-1": "missed at first; C05 reference now treats may_require_encryption as transparent (nearest explicit level decides) and judges those 7 placements",
 "C06-2": "missed at first; C06 gained Read Blob / Prepare Write offsets >= 256 and a 300 octet value",
 "C02-w2-1": "missed at first; C02 gained 128-bit near misses of every base-form UUID (one octet changed)",
 "C03-w2-2": "missed at first; C03 gained Find By Type Value values that are prefixes/suffixes (length 0..16) of the service UUIDs and a configuration whose 128-bit UUIDs start/end with a 16-bit UUID of the same server",
 "C04-w2-2": "missed at first; C04 now fetches every attribute also through Read Blob, Read Multiple and Read By Type and compares with Read",
 "C07-w2-1": "missed at first; C07 gained a unit with max_mtu_size<512>, shared_write_queue<700> and prepared writes of 250..300 octets",
 "C08-w2-2": "missed at first; C08 probes now include over-long requests of 16 kinds (incl. Prepare Write) against the negotiated MTU",
 "C15-w2-1": "missed at first (needs an interrupt between two statements of commit_transmit_buffer); C15 gained 'radio interrupt arrives at the lock acquisition' actions via a hook in the harness lock_guard",
 "C15-w2-2": "missed at first; C15 gained TransmitSize != ReceiveSize units and a buffer placement oracle",
 "C16-w2-2": "missed at first (code in nrf52.cpp was replaced by the fake Hardware); C16/C17 gained a unit that compiles the real nrf52.cpp against a generated register stub and enumerates encryption start/stop/setup orders (nonce uniqueness)",
 "C17-w2-2": "missed at first; same new unit: all 128 combinations of CRC / ENDCRYPT / MICSTATUS / length / encryption through the real received_pdu()",
 "C20-w2-2": "missed at first; C20 gained sequences of two and three channel map resets / LL_CHANNEL_MAP_REQ (rejected then valid)",
 "C21-w2-1": "missed at first; C21 gained 'connection ends while a procedure waits for its instant, then a new connection'",
 "C23-w2-1": "missed at first; C23 LL world gained application initiated LL procedures as pending output",
 "C24-w2-1": "missed at first (redundant removes were pruned as no-ops); C24 now executes redundant add/remove against an independent reference set",
 "C24-w2-2": "missed at first; C24 gained advertising intervals that are not multiples of 5 ms",
 "C27-w2-1": "missed at first; C27 gained feature-exchange histories and checks the reject form against the negotiated features",
 "C27-w2-2": "missed at first; C27 gained a unit for the asynchronous connection parameter request option",
 "C28-w2-2": "missed at first; the C28 bond-DB unit now runs the real combined security manager with SMP traffic and LL_ENC_REQ(0,0)",
 "C29-w2-2": "missed at first; C29 now demands the exact close reason where the cause is unambiguous and has valid channel map updates in its alphabet",
 "C31-w2-1": "ended with a harness NONDETERMINISM error at first (ASan reports a PC only once per process); the C31 signaling units now report every error",
 "C30-w2-2": "harness did not build at first (the yielding stand-in for std::atomic_int lacked operator++ and the other read-modify-write members); completed, the TSan side pass got a no-progress horizon",
 "C16-w3-1": "missed at first; C15-C17 gained units with Data Length Extension (max_rx_size 70, payload lengths 31..64)",
 "C27-w3-1": "missed at first; C27 gained 'second connection after a version exchange' states",
 "C29-w3-1": "missed at first; C29 gained a connection update that is refused at its instant and the oracle 'changed only for updates that took effect'",
 "C35-w3-1": "missed by C35 at first (C32 reported it; the C32 failure pruned the state in the C35 build); stale user answers no longer prune, new status rule",
 "C21-w3-1": "missed at first; C21 gained update parameter sets with WinOffset between the old and the new interval",
 "C23-w3-1": "missed at first; C23 now demands that a skipped event is pulled back (radio asked, event moved) when pending data appears and the radio allows it, incl. planned exactly two ahead",
 "C20-w3-1": "detected as a crash of the harness process (division by zero inside channel_map::reset for a map without used channels)",
 "C39-w2-2": "missed at first; the C39 content reference now survives interleaved control point procedures that do not leave flash mode",
 "C10-w2-1": "missed at first; C10 gained servers with include declarations",
 "C10-w2-2": "missed at first; C10 gained a server with a duplicated characteristic UUID (documented: the first one is notified)",
 "C32-w2-2": "missed at first; SM world 'wrong value' variants now cover first / middle / last octet wrong and all-but-last wrong",
 "C33-w2-1": "missed at first; find_key probes gained Rand values with zero low 32 bits and further EDIV/Rand neighbours",
 "C33-w2-2": "missed at first; bond DB configuration with an old entry under (0,0)",
 "C35-w2-2": "missed at first; passkeys >= 65536 with both halves non-zero and mod-65536 wrong values",
}
res = {}
for log in sys.argv[1:]:
    cur = None
    for l in open(log, errors="replace"):
        m = re.match(r"== (\S+) \((C\d+)\)", l)
        if m:
            cur = m.group(1); res[cur] = dict(prop=m.group(2), sigs=[], verdict=None, demo=None); continue
        if cur is None: continue
        if l.startswith("demo:"): res[cur]["demo"] = l.strip()[:200]
        m = re.search(r"signature=(\S+)", l)
        if m and l.startswith("VIOLATION"): res[cur]["sigs"].append(m.group(1))
        m = re.match(r"C\d+ (quick|thorough): (ok|FAIL)", l)
        if m: res[cur]["verdict"] = m.group(2); res[cur]["tier"] = m.group(1)
for d, r in sorted(res.items()):
    if not os.path.isdir(d):
        continue    # source directory of an earlier round already removed (it was imported then)
    if "passed=" in suite.get(d, "") and "passed=70" not in suite.get(d, ""):
        print(os.path.basename(d), "SKIPPED: breaks the repository suite:", suite[d]); continue
    sid = os.path.basename(d)
    if "/out2/" in d:   # second round of seeding
        sid = sid.replace("-", "-w2-")
    if "/s3-" in d:     # third, time boxed round
        sid = sid.replace("-", "-w3-")
    dst = os.path.join(V, "seeded", sid)
    os.makedirs(dst, exist_ok=True)
    for f in os.listdir(d):
        if f in ("patch.diff", "demo.cpp", "build_demo.sh", "nrf.h", "meta.json") or f.endswith(".hpp") or f.endswith(".h"):
            shutil.copy(os.path.join(d, f), dst)
    m = json.load(open(os.path.join(d, "meta.json")))
    m["suite_by_author"] = m.get("suite", "")
    m["suite"] = suite.get(d, "not run by the integrator")
    m["demo_by_integrator"] = r["demo"]
    m["detected"] = r["verdict"] == "FAIL"
    m["detected_by"] = ("bin/check %s --tier %s: " % (r["prop"], r.get("tier")) + ", ".join(sorted(set(r["sigs"]))[:4])) if r["sigs"] else ("NOT detected by the %s tier" % r.get("tier"))
    if sid in MISSED_FIRST: m["history"] = MISSED_FIRST[sid]
    m["ran"] = ["tools/try_seed.sh <dir> (demo on clean and patched worktree, bin/check with the patch applied, patch undone)", "tools: ninja + ctest of the repository suite in a scratch worktree with the patch applied alone"]
    json.dump(m, open(os.path.join(dst, "meta.json"), "w"), indent=1)
    print(sid, r["verdict"], m["suite"])
