#!/usr/bin/env python3
"""imports verified seeded changes into /verif/seeded/<id>/ : tools/import_seeds.py <try_seed logs...>
reads /tmp/w/suite_results.txt for the repository-suite result of each seed"""
import sys, os, re, json, shutil
V = "/verif"
suite = {}
if os.path.exists("/tmp/w/suite_results.txt"):
    for l in open("/tmp/w/suite_results.txt"):
        p = l.split()
        suite[p[0]] = " ".join(p[1:])
res = {}
for log in sys.argv[1:]:
    cur = None
    for l in open(log, errors="replace"):
        m = re.match(r"== (\S+) \((C\d+)\)", l)
        if m:
            cur = m.group(1); res[cur] = dict(prop=m.group(2), sigs=[], verdict=None, demo=None); continue
        if cur is None: continue
        if l.startswith("demo:"): res[cur]["demo"] = l.strip()[:200]
        m = re.search(r"signature=(\S+)", l)
        if m and l.startswith("VIOLATION"): res[cur]["sigs"].append(m.group(1))
        m = re.match(r"C\d+ (quick|thorough): (ok|FAIL)", l)
        if m: res[cur]["verdict"] = m.group(2); res[cur]["tier"] = m.group(1)
for d, r in sorted(res.items()):
    sid = os.path.basename(d)
    dst = os.path.join(V, "seeded", sid)
    os.makedirs(dst, exist_ok=True)
    for f in os.listdir(d):
        if f in ("patch.diff", "demo.cpp", "build_demo.sh", "nrf.h", "meta.json") or f.endswith(".hpp") or f.endswith(".h"):
            shutil.copy(os.path.join(d, f), dst)
    m = json.load(open(os.path.join(d, "meta.json")))
    m["suite_by_author"] = m.get("suite", "")
    m["suite"] = suite.get(d, "not run by the integrator")
    m["demo_by_integrator"] = r["demo"]
    m["detected"] = r["verdict"] == "FAIL"
    m["detected_by"] = ("bin/check %s --tier %s: " % (r["prop"], r.get("tier")) + ", ".join(sorted(set(r["sigs"]))[:4])) if r["sigs"] else ("NOT detected by the %s tier" % r.get("tier"))
    m["ran"] = ["tools/try_seed.sh <dir> (demo on clean and patched worktree, bin/check with the patch applied, patch undone)", "tools: ninja + ctest of the repository suite in a scratch worktree with the patch applied alone"]
    json.dump(m, open(os.path.join(dst, "meta.json"), "w"), indent=1)
    print(sid, r["verdict"], m["suite"])
