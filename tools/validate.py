#!/opt/veriftools/pyvenv/bin/python3
import json, glob, sys, jsonschema
ok = True
jsonschema.validate(json.load(open('/verif/MANIFEST.json')), json.load(open('/root/.vp/MANIFEST.schema.json')))
s = json.load(open('/root/.vp/EVIDENCE.schema.json'))
for f in sorted(glob.glob('/verif/evidence/C*.json')):
    try:
        jsonschema.validate(json.load(open(f)), s)
    except Exception as e:
        ok = False; print("INVALID", f, str(e)[:300])
print("valid" if ok else "INVALID")
sys.exit(0 if ok else 1)
