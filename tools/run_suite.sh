#!/bin/sh
# builds the repository's test suite (keep going: 6 test programs of the pinned commit do not compile and are not part of
# the 70-test baseline) and runs it; prints the number of passed tests
REPO=${1:-/repo}
cmake --build $REPO/_build -- -k 0 > /tmp/verif_suite_build.log 2>&1
ctest --test-dir $REPO/_build -j16 --timeout 900 2>&1 | grep -E "tests passed|Failed|\*\*\*Failed|Timeout" 
ctest --test-dir $REPO/_build -j16 --timeout 900 2>&1 | grep -c "   Passed"
