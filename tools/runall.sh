#!/bin/sh
# developer convenience: run all registered checks of a tier one after the other, print one summary line each
cd /verif
TIER=${1:-quick}
for p in $(python3 -c "import registry; print(' '.join(sorted(registry.CHECKS)))"); do
  bin/check $p --tier $TIER 2>&1 | cut -c1-330 | sed "s/^/[$p] /"
done
