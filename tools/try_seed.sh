#!/bin/bash
# tools/try_seed.sh <dir with patch.diff demo.cpp build_demo.sh meta.json> [suite]
# Confirms a seeded change: demo passes on the clean tree and fails with the patch, (optionally) the repository suite
# still passes with it, and runs the property's check against /repo with the patch applied (undone straight afterwards).
set -u
D=$(readlink -f "$1"); SUITE=${2:-}
PROP=$(python3 -c "import json,sys; print(json.load(open('$D/meta.json'))['property'])")
W=${TRY_SEED_W:-/tmp/vs}; mkdir -p $W
if [ ! -d $W/wt ]; then git -C /repo worktree add -q --detach $W/wt HEAD; fi
git -C $W/wt checkout -q --detach $(git -C /repo rev-parse HEAD); git -C $W/wt checkout -q -- .
echo "== $D ($PROP)"
# 1. demo on the clean tree
bash $D/build_demo.sh $W/wt $W/demo_clean > $W/demo_build.log 2>&1 || { echo "DEMO-BUILD-FAILED (clean)"; tail -5 $W/demo_build.log; }
( cd $W && timeout 300 ./demo_clean > $W/demo_clean.out 2>&1 ); RC_CLEAN=$?
git -C $W/wt apply $D/patch.diff || { echo "PATCH-DOES-NOT-APPLY"; exit 3; }
bash $D/build_demo.sh $W/wt $W/demo_patched > $W/demo_build.log 2>&1 || { echo "DEMO-BUILD-FAILED (patched)"; tail -5 $W/demo_build.log; }
( cd $W && timeout 300 ./demo_patched > $W/demo_patched.out 2>&1 ); RC_PATCHED=$?
echo "demo: clean rc=$RC_CLEAN ($(tail -1 $W/demo_clean.out | cut -c1-80))  patched rc=$RC_PATCHED ($(tail -1 $W/demo_patched.out | cut -c1-120))"
# 2. repository suite with the patch
if [ -n "$SUITE" ]; then
  if [ ! -d $W/build ]; then cmake -G Ninja -S $W/wt -B $W/build -DCMAKE_BUILD_TYPE=RelWithDebInfo -DBLUETOE_BUILD_UNIT_TESTS=ON > /dev/null; fi
  ninja -C $W/build -k 0 > $W/ninja.log 2>&1
  PASSED=$(ctest --test-dir $W/build -j16 --timeout 900 2>&1 | grep -c "   Passed")
  echo "suite with patch: $PASSED passed"
fi
# 3. the check: against /repo itself with the patch applied and undone straight afterwards (default), or - while other
#    runs use /repo - against the scratch worktree ( TRY_SEED_MODE=worktree )
TIER=${TRY_SEED_TIER:-quick}
if [ "${TRY_SEED_MODE:-repo}" = "worktree" ]; then
  ( cd /verif && VERIF_REPO=$W/wt bin/check $PROP --tier $TIER 2>&1 | cut -c1-260 | tail -6 )
  git -C $W/wt checkout -q -- .
else
  git -C $W/wt checkout -q -- .
  git -C /repo apply $D/patch.diff
  ( cd /verif && bin/check $PROP --tier $TIER 2>&1 | cut -c1-260 | tail -6 )
  git -C /repo checkout -- .
fi
