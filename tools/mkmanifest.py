#!/usr/bin/env python3
"""writes /verif/MANIFEST.json from registry.py"""
import json, os, sys
V = os.path.dirname(os.path.dirname(os.path.abspath(__file__)))
sys.path.insert(0, V)
import registry

props = [json.loads(l) for l in open(os.path.join(V, "properties.jsonl"))]
enabled = set(open(os.path.join(V, 'enabled.txt')).read().split())
checks = []
for pid in sorted(registry.CHECKS):
    if pid not in enabled:
        continue
    c = registry.CHECKS[pid]
    checks.append(dict(
        property_id=pid,
        quick_cmd="bin/check %s --tier quick" % pid,
        thorough_cmd="bin/check %s --tier thorough" % pid,
        evidence_file="/verif/evidence/%s.json" % pid,
        replay_cmd_template="bin/check %s --replay {path}" % pid,
        engine=c.get("engine", "mc"),
        level_claimed=dict(category=c["level"], text=c.get("level_text", c["technique"] + ". Bound: " + c.get("bound", "")), design_ref=c.get("design_ref", "")),
        level_note="; ".join(c.get("assumptions", [])) or "reference model written in the harness is trusted",
        technique=c["technique"]))
na = []
for p in props:
    if p["id"] not in registry.CHECKS or p["id"] not in enabled:
        na.append(dict(property_id=p["id"], reason=registry.NOT_CLAIMED.get(p["id"], "check not built yet (work in progress); no claim is made")))
m = dict(
    version=1,
    setup_cmd="true",
    hooks=dict(guard="BLUETOE_VERIF", enable="none needed: harnesses interpose at include time (macro mapping of uint8_t / std::atomic_int inside the harness TU) and build bluetoe's headers from /repo's working tree on every run",
               baseline_off_cmd="cmake --build /repo/_build -- -k 0 ; ctest --test-dir /repo/_build -j8 --timeout 900",
               source_commits=[], add_only=True),
    engines=[dict(name="mc", path="/verif/mc/mc.hpp", serves_properties=sorted(enabled & set(registry.CHECKS)),
                  kind_free_text="explicit-state BFS / exhaustive product enumeration / interleaving exploration directly over the real bluetoe objects; driver bin/check")],
    checks=checks,
    notes="See DESIGN.md. Every check rebuilds its harness against /repo's working tree. known_findings.json lists recorded and fixed defects.",
    not_applicable=na)
json.dump(m, open(os.path.join(V, "MANIFEST.json"), "w"), indent=1)
print("checks:", len(checks), "not claimed:", len(na))
