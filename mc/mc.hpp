// Common machinery for all harnesses: report, explicit-state BFS over the real implementation,
// guarded calls (ASan / SEGV as oracle), replay files.
//
// Every harness is one executable:
//     harness --out <result.json> --tier quick|thorough --deadline <seconds> [--replay <file>] [--replay-dir <dir>]
// It writes a result JSON that bin/check aggregates into /verif/evidence/<id>.json.
#ifndef VERIF_MC_HPP
#define VERIF_MC_HPP

#include <cstdint>
#include <cstdio>
#include <cstdlib>
#include <cstring>
#include <cstdarg>
#include <string>
#include <vector>
#include <map>
#include <set>
#include <unordered_set>
#include <chrono>
#include <functional>
#include <fstream>
#include <sstream>
#include <csignal>
#include <csetjmp>
#include <new>
#include <algorithm>

namespace mc {

// ---------------------------------------------------------------------------------------------
// small helpers
inline std::string fmt( const char* f, ... ) __attribute__(( format( printf, 1, 2 ) ));
inline std::string fmt( const char* f, ... )
{
    char buf[ 2048 ];
    va_list ap; va_start( ap, f );
    vsnprintf( buf, sizeof buf, f, ap );
    va_end( ap );
    return buf;
}

inline std::string hex( const std::uint8_t* p, std::size_t n )
{
    static const char d[] = "0123456789abcdef";
    std::string r;
    for ( std::size_t i = 0; i != n; ++i ) { r += d[ p[ i ] >> 4 ]; r += d[ p[ i ] & 15 ]; }
    return r;
}

inline std::string hex( const std::vector< std::uint8_t >& v ) { return v.empty() ? std::string() : hex( v.data(), v.size() ); }

inline std::vector< std::uint8_t > unhex( const std::string& s )
{
    std::vector< std::uint8_t > r;
    auto v = []( char c ) -> int { return c >= '0' && c <= '9' ? c - '0' : c >= 'a' && c <= 'f' ? c - 'a' + 10 : c >= 'A' && c <= 'F' ? c - 'A' + 10 : -1; };
    for ( std::size_t i = 0; i + 1 < s.size(); i += 2 )
        if ( v( s[ i ] ) >= 0 && v( s[ i + 1 ] ) >= 0 )
            r.push_back( std::uint8_t( v( s[ i ] ) * 16 + v( s[ i + 1 ] ) ) );
    return r;
}

inline std::string json_escape( const std::string& s )
{
    std::string r;
    for ( unsigned char c : s )
    {
        if ( c == '"' ) r += "\\\"";
        else if ( c == '\\' ) r += "\\\\";
        else if ( c == '\n' ) r += "\\n";
        else if ( c < 0x20 || c >= 0x7f ) r += fmt( "\\u%04x", c );
        else r += char( c );
    }
    return r;
}

inline double now_s()
{
    using namespace std::chrono;
    return duration< double >( steady_clock::now().time_since_epoch() ).count();
}

// ---------------------------------------------------------------------------------------------
// command line
struct Args
{
    std::string out = "result.json";
    std::string tier = "quick";
    std::string replay;           // replay file; empty = explore
    std::string replay_dir = "."; // where to put replay files
    double      deadline = 1e9;   // seconds of wall clock for the whole harness
    double      start = now_s();
    std::map< std::string, std::string > opt; // --key value (others)

    bool thorough() const { return tier == "thorough"; }
    bool expired() const { return now_s() - start > deadline; }
    double remaining() const { return deadline - ( now_s() - start ); }
    long   num( const std::string& k, long dflt ) const { auto i = opt.find( k ); return i == opt.end() ? dflt : atol( i->second.c_str() ); }
};

inline Args parse_args( int argc, char** argv )
{
    Args a;
    for ( int i = 1; i < argc; ++i )
    {
        std::string k = argv[ i ];
        std::string v = ( i + 1 < argc ) ? argv[ i + 1 ] : "";
        if ( k == "--out" ) { a.out = v; ++i; }
        else if ( k == "--tier" ) { a.tier = v; ++i; }
        else if ( k == "--replay" ) { a.replay = v; ++i; }
        else if ( k == "--replay-dir" ) { a.replay_dir = v; ++i; }
        else if ( k == "--deadline" ) { a.deadline = atof( v.c_str() ); ++i; }
        else if ( k.rfind( "--", 0 ) == 0 ) { a.opt[ k.substr( 2 ) ] = v; ++i; }
    }
    return a;
}

// ---------------------------------------------------------------------------------------------
// report
struct Violation
{
    std::string sig;      // stable signature: "<oracle>:<mechanism>:<input class>"
    std::string detail;   // human readable
    std::vector< std::string > trace; // replayable lines
    std::uint64_t count = 0;
    std::string replay_path;
};

struct Report
{
    std::string property;
    std::string unit;                         // harness / configuration name
    std::uint64_t evaluations = 0;            // E2: cases evaluated, E1: transitions + drains, E3: schedules
    std::uint64_t states = 0, transitions = 0;
    std::uint64_t traces_validated = 0;       // executions of the real implementation
    std::set< std::string > classes;          // distinct non-trivial outcome classes observed
    std::vector< std::string > samples;
    std::map< std::string, Violation > violations;
    bool exhaustive = true;
    bool fixpoint = false;
    int  max_depth_completed = -1;
    std::map< std::string, std::string > notes;      // free text
    std::map< std::string, std::uint64_t > counters; // extra numbers

    void cls( const std::string& c ) { if ( classes.size() < 100000 ) classes.insert( c ); }
    void sample( const std::string& s, std::size_t cap = 6 ) { if ( samples.size() < cap ) samples.push_back( s ); }

    // returns true if this signature is new
    bool fail( const std::string& sig, const std::string& detail, const std::vector< std::string >& trace )
    {
        auto it = violations.find( sig );
        if ( it != violations.end() )
        {
            ++it->second.count;
            // keep the shortest trace
            if ( trace.size() < it->second.trace.size() ) { it->second.trace = trace; it->second.detail = detail; }
            return false;
        }
        Violation v; v.sig = sig; v.detail = detail; v.trace = trace; v.count = 1;
        violations[ sig ] = v;
        return true;
    }

    static std::string sanitize( const std::string& s )
    {
        std::string r;
        for ( char c : s ) r += ( isalnum( (unsigned char)c ) || c == '-' || c == '_' || c == '.' ) ? c : '_';
        if ( r.size() > 80 ) r.resize( 80 );
        return r;
    }

    void write_replays( const Args& a )
    {
        for ( auto& kv : violations )
        {
            Violation& v = kv.second;
            std::string path = a.replay_dir + "/" + property + "-" + sanitize( unit ) + "-" + sanitize( v.sig ) + ".trace";
            std::ofstream f( path );
            f << "property " << property << "\n";
            f << "unit " << unit << "\n";
            f << "sig " << v.sig << "\n";
            f << "detail " << json_escape( v.detail ) << "\n";
            for ( auto& l : v.trace ) f << "step " << l << "\n";
            v.replay_path = path;
        }
    }

    void write( const Args& a )
    {
        write_replays( a );
        std::ofstream f( a.out );
        f << "{\n";
        f << " \"property\": \"" << property << "\",\n";
        f << " \"unit\": \"" << json_escape( unit ) << "\",\n";
        f << " \"tier\": \"" << a.tier << "\",\n";
        f << " \"evaluations\": " << evaluations << ",\n";
        f << " \"states\": " << states << ",\n";
        f << " \"transitions\": " << transitions << ",\n";
        f << " \"traces_validated_against_impl\": " << traces_validated << ",\n";
        f << " \"distinct_nontrivial\": " << classes.size() << ",\n";
        f << " \"exhaustive\": " << ( exhaustive ? "true" : "false" ) << ",\n";
        f << " \"fixpoint\": " << ( fixpoint ? "true" : "false" ) << ",\n";
        f << " \"max_depth_completed\": " << max_depth_completed << ",\n";
        f << " \"wall_s\": " << fmt( "%.3f", now_s() - a.start ) << ",\n";
        f << " \"classes\": [";
        { std::size_t n = 0; for ( auto& c : classes ) { if ( n == 400 ) break; f << ( n ? "," : "" ) << "\"" << json_escape( c ) << "\""; ++n; } }
        f << "],\n";
        f << " \"samples\": [";
        for ( std::size_t i = 0; i != samples.size(); ++i ) f << ( i ? "," : "" ) << "\"" << json_escape( samples[ i ] ) << "\"";
        f << "],\n";
        f << " \"notes\": {";
        { bool first = true; for ( auto& kv : notes ) { f << ( first ? "" : "," ) << "\"" << json_escape( kv.first ) << "\": \"" << json_escape( kv.second ) << "\""; first = false; } }
        f << "},\n";
        f << " \"counters\": {";
        { bool first = true; for ( auto& kv : counters ) { f << ( first ? "" : "," ) << "\"" << json_escape( kv.first ) << "\": " << kv.second; first = false; } }
        f << "},\n";
        f << " \"violations\": [";
        { bool first = true;
          for ( auto& kv : violations )
          {
              const Violation& v = kv.second;
              f << ( first ? "" : "," ) << "\n  {\"sig\": \"" << json_escape( v.sig ) << "\", \"detail\": \"" << json_escape( v.detail )
                << "\", \"count\": " << v.count << ", \"replay\": \"" << json_escape( v.replay_path ) << "\", \"trace_len\": " << v.trace.size() << "}";
              first = false;
          } }
        f << "]\n}\n";
    }
};

// ---------------------------------------------------------------------------------------------
// replay file
struct ReplayFile
{
    std::string property, unit, sig;
    std::vector< std::string > steps;
};

inline ReplayFile read_replay( const std::string& path )
{
    ReplayFile r;
    std::ifstream f( path );
    std::string l;
    while ( std::getline( f, l ) )
    {
        auto sp = l.find( ' ' );
        std::string k = l.substr( 0, sp ), v = sp == std::string::npos ? "" : l.substr( sp + 1 );
        if ( k == "property" ) r.property = v;
        else if ( k == "unit" ) r.unit = v;
        else if ( k == "sig" ) r.sig = v;
        else if ( k == "step" ) r.steps.push_back( v );
    }
    return r;
}

// ---------------------------------------------------------------------------------------------
// Guarded calls: ASan error reports (recover mode) and SIGSEGV/SIGBUS/SIGFPE/SIGABRT become results.
// Build with -fsanitize=address -fsanitize-recover=address and run with
// ASAN_OPTIONS=halt_on_error=0:detect_leaks=0:handle_segv=0:handle_abort=0:handle_sigfpe=0:allow_user_segv_handler=1
struct Guard
{
    static volatile int& asan_errors() { static volatile int n = 0; return n; }
    static sigjmp_buf& jb() { static sigjmp_buf b; return b; }
    static volatile int& armed() { static volatile int a = 0; return a; }
    static volatile int& last_signal() { static volatile int s = 0; return s; }

    static void handler( int sig )
    {
        if ( armed() )
        {
            last_signal() = sig;
            armed() = 0;
            siglongjmp( jb(), 1 );
        }
        signal( sig, SIG_DFL );
        raise( sig );
    }

    static void install()
    {
        static bool done = false;
        if ( done ) return;
        done = true;
        // alternate stack so that stack overflows are survivable too
        static char altstack[ 1 << 16 ];
        stack_t ss; ss.ss_sp = altstack; ss.ss_size = sizeof altstack; ss.ss_flags = 0;
        sigaltstack( &ss, nullptr );
        struct sigaction sa; memset( &sa, 0, sizeof sa );
        sa.sa_handler = &handler; sa.sa_flags = SA_NODEFER | SA_ONSTACK;
        sigaction( SIGSEGV, &sa, nullptr );
        sigaction( SIGBUS, &sa, nullptr );
        sigaction( SIGFPE, &sa, nullptr );
        sigaction( SIGABRT, &sa, nullptr );
        sigaction( SIGILL, &sa, nullptr );
    }

    // returns "" if fine, else "asan" / "signal-<n>"
    template < class F >
    static std::string call( F&& f )
    {
        install();
        const int before = asan_errors();
        if ( sigsetjmp( jb(), 1 ) == 0 )
        {
            armed() = 1;
            f();
            armed() = 0;
        }
        else
        {
            return fmt( "signal-%d", (int)last_signal() );
        }
        if ( asan_errors() != before ) return "asan";
        return "";
    }
};

// ---------------------------------------------------------------------------------------------
// 128 bit state hash
struct Hash128
{
    std::uint64_t a, b;
    bool operator==( const Hash128& o ) const { return a == o.a && b == o.b; }
};
struct Hash128Hasher { std::size_t operator()( const Hash128& h ) const { return std::size_t( h.a ^ ( h.b * 0x9E3779B97F4A7C15ull ) ); } };

inline std::uint64_t mix64( std::uint64_t x )
{
    x ^= x >> 33; x *= 0xff51afd7ed558ccdull; x ^= x >> 33; x *= 0xc4ceb9fe1a85ec53ull; x ^= x >> 33; return x;
}

inline Hash128 hash_bytes( const std::uint8_t* p, std::size_t n )
{
    std::uint64_t a = 0x243F6A8885A308D3ull ^ n, b = 0x13198A2E03707344ull + n;
    std::size_t i = 0;
    for ( ; i + 8 <= n; i += 8 )
    {
        std::uint64_t w; memcpy( &w, p + i, 8 );
        a = mix64( a ^ w ) + 0x9E3779B97F4A7C15ull;
        b = ( b ^ ( w * 0xA24BAED4963EE407ull ) ); b = ( b << 29 | b >> 35 ) * 0x9FB21C651E98DF25ull;
    }
    std::uint64_t w = 0;
    if ( i < n ) memcpy( &w, p + i, n - i );
    a = mix64( a ^ w ^ 0x5555 );
    b = mix64( b ^ ( w + 0x3333 ) );
    return Hash128{ a, b };
}

// ---------------------------------------------------------------------------------------------
// E1: explicit-state breadth-first search over the real implementation.
//
// A World W provides
//    void        init();                       // bring all registered regions into the initial state
//    int         num_events() const;
//    bool        apply( int ev, Ctx& );        // call the real handler; false = event not enabled here
//    std::string describe( int ev ) const;
//    void        regions( Regions& );          // memory that makes up the state (real objects + reference model)
// optional (detected via the flags in Options):
//    void        drain( Ctx& );                // bounded liveness run from the current state (state is restored afterwards)
//
// apply() is always started from a restored byte image, so "one transition" is one call into bluetoe.
struct Region { void* p; std::size_t n; };
struct Regions
{
    std::vector< Region > r;
    void add( void* p, std::size_t n ) { r.push_back( Region{ p, n } ); }
    template < class T > void add( T& t ) { add( &t, sizeof( T ) ); }
    std::size_t size() const { std::size_t s = 0; for ( auto& x : r ) s += x.n; return s; }
    void save( std::uint8_t* d ) const { for ( auto& x : r ) { memcpy( d, x.p, x.n ); d += x.n; } }
    void load( const std::uint8_t* d ) const { for ( auto& x : r ) { memcpy( x.p, d, x.n ); d += x.n; } }
};

struct Ctx
{
    struct Fail { std::string sig, detail; };
    std::vector< Fail > fails;
    std::vector< std::string > classes;
    std::string obs;        // observation of the step (for replay determinism check and samples)
    bool prune = false;     // do not expand the successor (e.g. terminal state)
    void fail( const std::string& sig, const std::string& detail ) { fails.push_back( Fail{ sig, detail } ); }
    void cls( const std::string& c ) { classes.push_back( c ); }
    void clear() { fails.clear(); classes.clear(); obs.clear(); prune = false; }
};

struct BfsOptions
{
    int           max_depth = 1000;
    std::uint64_t max_states = 4000000;
    bool          with_drain = false;
    bool          stop_at_first = false;  // stop expanding after the first violation signature set (keeps output small)
    std::size_t   max_sigs = 12;          // stop recording new signatures after this many
};

template < class W >
struct Bfs
{
    W&        w;
    Report&   rep;
    const Args& args;
    BfsOptions opt;
    Regions   regs;
    std::size_t isz;

    struct Node { std::uint32_t parent; std::int32_t ev; };
    std::vector< Node > nodes;
    std::unordered_set< Hash128, Hash128Hasher > seen;

    Bfs( W& w_, Report& r, const Args& a, BfsOptions o = BfsOptions() ) : w( w_ ), rep( r ), args( a ), opt( o )
    {
        w.regions( regs );
        isz = regs.size();
    }

    std::vector< int > path( std::uint32_t n ) const
    {
        std::vector< int > p;
        while ( n != 0 ) { p.push_back( nodes[ n ].ev ); n = nodes[ n ].parent; }
        std::reverse( p.begin(), p.end() );
        return p;
    }

    std::vector< std::string > trace_lines( const std::vector< int >& evs ) const
    {
        std::vector< std::string > t;
        for ( int e : evs ) t.push_back( e < 0 ? std::string( "-1 drain" ) : fmt( "%d ", e ) + w.describe( e ) );
        return t;
    }

    // replay a list of events from the initial state; returns signatures raised by the last event
    // ( ev == -1 as last element means: run drain )
    std::vector< Ctx::Fail > replay( const std::vector< int >& evs, std::string* obs = nullptr, bool verbose = false )
    {
        w.init();
        Ctx c;
        for ( std::size_t i = 0; i != evs.size(); ++i )
        {
            c.clear();
            if ( evs[ i ] < 0 ) call_drain( c );
            else
            {
                bool en = w.apply( evs[ i ], c );
                if ( verbose ) printf( "  step %zu: %s%s  -> %s\n", i, w.describe( evs[ i ] ).c_str(), en ? "" : " [not enabled]", c.obs.c_str() );
            }
            if ( verbose ) for ( auto& f : c.fails ) printf( "    FAIL %s: %s\n", f.sig.c_str(), f.detail.c_str() );
            ++rep.traces_validated;
        }
        if ( obs ) *obs = c.obs;
        return c.fails;
    }

    template < class X = W >
    auto call_drain_impl( Ctx& c, int ) -> decltype( std::declval< X& >().drain( c ), void() ) { w.drain( c ); }
    void call_drain_impl( Ctx&, long ) {}
    void call_drain( Ctx& c ) { call_drain_impl( c, 0 ); }

    void record( const Ctx& c, std::uint32_t parent, int ev )
    {
        for ( auto& f : c.fails )
        {
            if ( rep.violations.count( f.sig ) ) { ++rep.violations[ f.sig ].count; continue; }
            if ( rep.violations.size() >= opt.max_sigs ) continue;
            std::vector< int > p = path( parent );
            p.push_back( ev );
            // determinism: replay twice from a fresh world; the same signature has to show up both times
            std::vector< std::uint8_t > keep( isz );
            regs.save( keep.data() );
            bool ok[ 2 ] = { false, false };
            std::string o[ 2 ];
            for ( int k = 0; k != 2; ++k )
                for ( auto& g : replay( p, &o[ k ] ) )
                    if ( g.sig == f.sig ) ok[ k ] = true;
            regs.load( keep.data() );
            if ( !ok[ 0 ] || !ok[ 1 ] || o[ 0 ] != o[ 1 ] )
            {
                fprintf( stderr, "NONDETERMINISM: signature %s not reproduced on replay (unit %s)\n", f.sig.c_str(), rep.unit.c_str() );
                for ( auto& l : trace_lines( p ) ) fprintf( stderr, "   %s\n", l.c_str() );
                exit( 2 );
            }
            rep.fail( f.sig, f.detail, trace_lines( p ) );
        }
        for ( auto& k : c.classes ) rep.cls( k );
    }

    void run()
    {
        w.init();
        std::vector< std::uint8_t > cur( isz ), nxt_img( isz );
        regs.save( cur.data() );
        nodes.push_back( Node{ 0, -1 } );
        seen.insert( hash_bytes( cur.data(), isz ) );
        rep.states = 1;

        std::vector< std::uint8_t > level( cur );        // images of the current level, concatenated
        std::vector< std::uint32_t > level_ids{ 0 };
        const int nev = w.num_events();
        Ctx c;

        if ( opt.with_drain )
        {
            c.clear(); call_drain( c ); ++rep.evaluations; record( c, 0, -1 ); regs.load( cur.data() );
        }

        bool cut = false;
        for ( int depth = 0; depth < opt.max_depth && !level_ids.empty(); ++depth )
        {
            std::vector< std::uint8_t > next_level;
            std::vector< std::uint32_t > next_ids;
            for ( std::size_t s = 0; s != level_ids.size() && !cut; ++s )
            {
                const std::uint8_t* img = &level[ s * isz ];
                for ( int ev = 0; ev != nev; ++ev )
                {
                    regs.load( img );
                    c.clear();
                    if ( !w.apply( ev, c ) ) continue;
                    ++rep.transitions; ++rep.evaluations; ++rep.traces_validated;
                    if ( rep.samples.size() < 6 && depth >= 1 && ( rep.transitions % 7 ) == 3 )
                    {
                        std::string t;
                        std::vector< int > p = path( level_ids[ s ] ); p.push_back( ev );
                        for ( int e : p ) t += w.describe( e ) + "; ";
                        rep.sample( t + " => " + c.obs );
                    }
                    record( c, level_ids[ s ], ev );
                    if ( c.prune || !c.fails.empty() ) continue; // after a failed oracle the reference is out of step: do not expand
                    regs.save( nxt_img.data() );
                    Hash128 h = hash_bytes( nxt_img.data(), isz );
                    if ( seen.insert( h ).second )
                    {
                        nodes.push_back( Node{ level_ids[ s ], ev } );
                        std::uint32_t id = std::uint32_t( nodes.size() - 1 );
                        next_ids.push_back( id );
                        next_level.insert( next_level.end(), nxt_img.begin(), nxt_img.end() );
                        ++rep.states;
                        if ( opt.with_drain )
                        {
                            c.clear(); call_drain( c ); ++rep.evaluations;
                            record( c, id, -1 );
                        }
                    }
                }
                if ( ( s & 63 ) == 0 && ( args.expired() || rep.states > opt.max_states ) ) cut = true;
            }
            if ( cut ) { rep.exhaustive = false; rep.notes[ "cut" ] = fmt( "deadline or state cap hit while expanding depth %d; all states up to depth %d fully expanded", depth, depth - 1 ); break; }
            rep.max_depth_completed = depth + 1;
            level.swap( next_level );
            level_ids.swap( next_ids );
            if ( level_ids.empty() ) rep.fixpoint = true;
        }
        if ( !rep.fixpoint && !cut ) { rep.notes[ "bound" ] = fmt( "depth bound %d reached, %zu frontier states unexpanded", opt.max_depth, level_ids.size() ); }
        // a completed depth bound is an exhaustive exploration *of that bound*; fixpoint = all reachable states
    }

    // replay from a file (trace lines start with the event number)
    int replay_file( const ReplayFile& rf )
    {
        std::vector< int > evs;
        for ( auto& s : rf.steps ) evs.push_back( atoi( s.c_str() ) );
        printf( "replaying %zu steps on unit %s\n", evs.size(), rep.unit.c_str() );
        auto fails = replay( evs, nullptr, true );
        for ( auto& f : fails ) if ( f.sig == rf.sig ) { printf( "REPRODUCED %s: %s\n", f.sig.c_str(), f.detail.c_str() ); return 1; }
        printf( "not reproduced\n" );
        return 0;
    }
};

// poisoned static storage for placement of the device under test
template < class T >
struct Placed
{
    alignas( 64 ) unsigned char raw[ sizeof( T ) ];
    T* operator->() { return reinterpret_cast< T* >( raw ); }
    T& get() { return *reinterpret_cast< T* >( raw ); }
    template < class... A >
    void construct( A&&... a ) { memset( raw, 0xCD, sizeof raw ); new ( raw ) T( static_cast< A&& >( a )... ); }
};

} // namespace mc

// ASan calls this (weak hook) before printing an error report
#ifndef MC_NO_ASAN_HOOK
extern "C" __attribute__(( used, visibility( "default" ) )) void __asan_on_error() { ++mc::Guard::asan_errors(); }
#endif

#endif
