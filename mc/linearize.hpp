// brute-force linearizability check for small histories (<= ~10 operations)
#ifndef VERIF_LINEARIZE_HPP
#define VERIF_LINEARIZE_HPP
#include <vector>
#include <string>

namespace mc {

struct HOp
{
    int thread = 0;
    int kind = 0;       // harness defined
    long arg = 0;
    long ret = 0;       // recorded result (harness defined encoding)
    long ret2 = 0;
    int t_call = 0, t_ret = 0;
    std::string text() const { return "t" + std::to_string( thread ) + ":k" + std::to_string( kind ) + "(" + std::to_string( arg ) + ")->" + std::to_string( ret ) + "," + std::to_string( ret2 ) + "@[" + std::to_string( t_call ) + "," + std::to_string( t_ret ) + "]"; }
};

// Spec: copyable sequential model with   bool apply( const HOp& )  = "the recorded result is a legal result in this state" (and
// the state is advanced).
template < class Spec >
bool linearizable_rec( const std::vector< HOp >& ops, std::vector< char >& done, std::size_t ndone, const Spec& st, std::vector< int >* order )
{
    if ( ndone == ops.size() ) return true;
    int min_ret = 1 << 30;
    for ( std::size_t i = 0; i != ops.size(); ++i ) if ( !done[ i ] && ops[ i ].t_ret < min_ret ) min_ret = ops[ i ].t_ret;
    for ( std::size_t i = 0; i != ops.size(); ++i )
    {
        if ( done[ i ] || ops[ i ].t_call > min_ret ) continue;
        Spec s2 = st;
        if ( !s2.apply( ops[ i ] ) ) continue;
        done[ i ] = 1;
        if ( order ) order->push_back( int( i ) );
        if ( linearizable_rec( ops, done, ndone + 1, s2, order ) ) return true;
        if ( order ) order->pop_back();
        done[ i ] = 0;
    }
    return false;
}

template < class Spec >
bool linearizable( const std::vector< HOp >& ops, const Spec& init, std::vector< int >* order = nullptr )
{
    std::vector< char > done( ops.size(), 0 );
    return linearizable_rec( ops, done, 0, init, order );
}

}
#endif
