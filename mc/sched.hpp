// E3: interleaving explorer.  N coroutines (ucontext) on one OS thread; a scheduling point is every hooked shared-memory
// access.  Stateless depth-first enumeration of all choice sequences (optionally preemption bounded).
//
//   mc::Sched s;
//   s.explore( setup, { body0, body1 }, check, options );
//
// * setup() re-creates the shared state before every execution,
// * bodies call mc::Sched::point() (through the hooked types) before every shared access,
// * check() is the oracle, evaluated after every complete execution,
// * in ISR mode thread 0 is the main context; the other threads are interrupt handlers: once an ISR runs it is not
//   preempted by main until it calls Sched::isr_return() (or finishes); ISRs can fire at every point of main.
#ifndef VERIF_SCHED_HPP
#define VERIF_SCHED_HPP

#include <vector>
#include <functional>
#include <string>
#include <cstdint>
#include <cstdio>
#include <cstdlib>
#include <cstring>

// minimal x86-64 context switch (no signal mask system calls, unlike swapcontext)
extern "C" void mc_switch( void** save_sp, void* load_sp );
asm( R"(
.text
.globl mc_switch
.type mc_switch,@function
mc_switch:
    pushq %rbp
    pushq %rbx
    pushq %r12
    pushq %r13
    pushq %r14
    pushq %r15
    movq %rsp, (%rdi)
    movq %rsi, %rsp
    popq %r15
    popq %r14
    popq %r13
    popq %r12
    popq %rbx
    popq %rbp
    ret
.size mc_switch,.-mc_switch
)" );

namespace mc {

struct SchedOptions
{
    bool isr_mode = false;      // threads >= 1 run to their next isr_return() without being preempted
    int  preemption_bound = -1; // -1: unbounded (all interleavings)
    std::uint64_t max_schedules = 50000000;
    int  horizon = 10000;       // max points per execution (livelock guard)
};

class Sched
{
public:
    static Sched*& current() { static Sched* s = nullptr; return s; }

    // called by hooked accesses
    static void point()
    {
        Sched* s = current();
        if ( !s || s->running_ < 0 ) return;
        s->yield_to_scheduler();
    }

    // ISR bodies call this between two separate interrupts
    static void isr_return()
    {
        Sched* s = current();
        if ( !s || s->running_ < 0 ) return;
        s->in_isr_ = false;
        s->yield_to_scheduler();
    }

    static int running() { Sched* s = current(); return s ? s->running_ : -1; }

    struct Result
    {
        std::uint64_t schedules = 0;
        std::uint64_t points = 0;
        int  max_preemptions = 0;
        bool complete = true;      // false: max_schedules or deadline hit
        bool livelock = false;
        std::vector< int > failing_schedule;
        std::string failure;
    };

    // check returns "" or a failure description; on_fail is called with (schedule, description) and returns true to stop
    Result explore( const std::function< void() >& setup,
                    const std::vector< std::function< void() > >& bodies,
                    const std::function< std::string() >& check,
                    const SchedOptions& opt,
                    const std::function< bool() >& expired = [] { return false; },
                    const std::function< bool( const std::vector< int >&, const std::string& ) >& on_fail = nullptr )
    {
        Result res;
        opt_ = opt;
        std::vector< std::vector< int > > stack; // DFS work list of prefixes
        stack.push_back( {} );
        while ( !stack.empty() )
        {
            std::vector< int > prefix = stack.back(); stack.pop_back();
            Exec x = run( setup, bodies, prefix );
            ++res.schedules;
            res.points += x.choices.size();
            if ( x.livelock ) { res.livelock = true; res.failing_schedule = x.choices; res.failure = "livelock: horizon reached"; if ( !on_fail || on_fail( x.choices, res.failure ) ) return res; }
            std::string f = check();
            if ( !f.empty() )
            {
                if ( res.failure.empty() ) { res.failing_schedule = x.choices; res.failure = f; }
                if ( !on_fail || on_fail( x.choices, f ) ) return res;
            }
            // enumerate alternatives after the prefix
            int pre = 0;
            for ( std::size_t i = 0; i != x.choices.size(); ++i )
            {
                if ( i >= prefix.size() )
                {
                    for ( std::size_t alt = 1; alt < x.enabled[ i ].size(); ++alt )
                    {
                        int cost = pre + ( x.pre_cost[ i ] ? 1 : 0 );
                        if ( opt.preemption_bound >= 0 && cost > opt.preemption_bound ) continue;
                        std::vector< int > p( x.choices.begin(), x.choices.begin() + i );
                        p.push_back( int( alt ) );
                        stack.push_back( p );
                    }
                }
                if ( x.choices[ i ] != 0 && x.pre_cost[ i ] ) ++pre;
            }
            if ( pre > res.max_preemptions ) res.max_preemptions = pre;
            if ( res.schedules >= opt.max_schedules || ( ( res.schedules & 1023 ) == 0 && expired() ) ) { res.complete = stack.empty(); return res; }
        }
        return res;
    }

    // replay one schedule (choice indices); returns check()
    std::string replay( const std::function< void() >& setup, const std::vector< std::function< void() > >& bodies,
                        const std::function< std::string() >& check, const SchedOptions& opt, const std::vector< int >& schedule,
                        std::vector< int >* tids = nullptr )
    {
        opt_ = opt;
        Exec x = run( setup, bodies, schedule );
        if ( tids ) *tids = x.tids;
        return check();
    }

private:
    struct Exec
    {
        std::vector< int > choices;                  // index into enabled[i]
        std::vector< std::vector< int > > enabled;   // canonical order: running thread first (if enabled), then ascending ids
        std::vector< char > pre_cost;                // choosing alt != 0 here is a preemption
        std::vector< int > tids;
        bool livelock = false;
    };

    static constexpr std::size_t stack_size = 256 * 1024;

    struct Thread
    {
        void* sp = nullptr;
        std::vector< unsigned char > stack;
        bool done = false;
        std::function< void() > body;
    };

    static void trampoline()
    {
        Sched* s = current();
        int me = s->running_;
        s->threads_[ me ].body();
        s->threads_[ me ].done = true;
        if ( me != 0 ) s->in_isr_ = false;
        s->running_ = -2; // finished marker
        mc_switch( &s->threads_[ me ].sp, s->main_sp_ );
        abort();
    }

    void yield_to_scheduler()
    {
        int me = running_;
        mc_switch( &threads_[ me ].sp, main_sp_ );
    }

    Exec run( const std::function< void() >& setup, const std::vector< std::function< void() > >& bodies, const std::vector< int >& prefix )
    {
        Exec x;
        current() = this;
        running_ = -1;
        in_isr_ = false;
        setup();
        if ( threads_.size() != bodies.size() ) { threads_.clear(); threads_.resize( bodies.size() ); }
        for ( std::size_t i = 0; i != bodies.size(); ++i )
        {
            Thread& t = threads_[ i ];
            if ( t.stack.size() != stack_size ) t.stack.assign( stack_size, 0 );
            t.body = bodies[ i ];
            t.done = false;
            // initial frame: six callee-saved registers, entry address, fake return address
            std::uintptr_t top = ( reinterpret_cast< std::uintptr_t >( t.stack.data() ) + t.stack.size() ) & ~std::uintptr_t( 15 );
            void** f = reinterpret_cast< void** >( top );
            *--f = nullptr;                                        // fake return address (keeps rsp = 8 mod 16 at entry)
            *--f = reinterpret_cast< void* >( &trampoline );
            for ( int k = 0; k != 6; ++k ) *--f = nullptr;
            t.sp = f;
        }
        int last = 0; // thread that ran last
        bool first = true;
        for ( ;; )
        {
            std::vector< int > en;
            if ( opt_.isr_mode && in_isr_ && !threads_[ last ].done )
            {
                en.push_back( last ); // an interrupt handler is not preempted by main
            }
            else
            {
                if ( !first && !threads_[ last ].done ) en.push_back( last );
                for ( std::size_t i = 0; i != threads_.size(); ++i )
                    if ( !threads_[ i ].done && ( en.empty() || en[ 0 ] != int( i ) ) ) en.push_back( int( i ) );
            }
            if ( en.empty() ) break;
            std::size_t idx = x.choices.size();
            int c = 0;
            if ( idx < prefix.size() )
            {
                c = prefix[ idx ];
                if ( c < 0 || c >= int( en.size() ) ) { fprintf( stderr, "sched: replay divergence at point %zu (choice %d of %zu)\n", idx, c, en.size() ); exit( 2 ); }
            }
            x.choices.push_back( c );
            x.enabled.push_back( en );
            x.pre_cost.push_back( !first && !threads_[ last ].done && en[ 0 ] == last );
            int tid = en[ c ];
            x.tids.push_back( tid );
            if ( opt_.isr_mode && tid != 0 ) in_isr_ = true;
            running_ = tid;
            mc_switch( &main_sp_, threads_[ tid ].sp );
            running_ = -1;
            last = tid;
            first = false;
            if ( int( x.choices.size() ) > opt_.horizon ) { x.livelock = true; break; }
        }
        current() = nullptr;
        return x;
    }

    SchedOptions opt_;
    std::vector< Thread > threads_;
    void* main_sp_ = nullptr;
    int  running_ = -1;
    bool in_isr_ = false;
};

} // namespace mc

#endif
